#!/bin/bash
# Runs every registered quick (or thorough) check once and reports exit codes / wall times.
# usage: ./run_all.sh [quick|thorough] [ids...]
cd "$(dirname "$0")"
TIER=${1:-quick}; shift
IDS=${@:-$(python3 -c "import json;print(' '.join(c['property_id'] for c in json.load(open('MANIFEST.json'))['checks']))")}
for id in $IDS; do
  t0=$(date +%s)
  out=$(./check $id --tier $TIER 2>&1); rc=$?
  t1=$(date +%s)
  echo "$id rc=$rc $((t1-t0))s $(echo "$out" | grep -c '^VIOLATION') viol $(echo "$out" | grep -c '^KNOWN-FINDING') known $(echo "$out" | grep -c '^DRIFT') drift"
  [ $rc -ne 0 ] && echo "$out" | tail -5
done
