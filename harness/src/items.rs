//! The fixed family of salsa items and the interpreter that gives them bodies from a `Program`.
use crate::ev;
use crate::log::{cb, next_serial};
use crate::types::*;
use salsa::plumbing::{AsId, FromId};
use salsa::{Accumulator, Durability, Id, Setter};
use std::collections::HashMap;
use std::hash::{Hash, Hasher};
use std::sync::atomic::{AtomicI64, Ordering};
use std::sync::{Arc, Mutex};

// ---------------------------------------------------------------------------------------
// values

/// Result / tracked-field value: compared on `v` and `hs` only; every instance has a unique
/// serial; `Drop` and `PartialEq` are logged (C03 backdating, C05 eviction, C22, C23).
pub struct Val {
    pub v: i64,
    pub hs: Vec<Id>,
    /// interned handles exported by the function (kind, id)
    pub is: Vec<(i64, Id)>,
    pub serial: u64,
}

impl Val {
    pub fn new(v: i64, hs: Vec<Id>) -> Val {
        let serial = next_serial();
        Val { v, hs, is: vec![], serial }
    }
    pub fn with_is(mut self, is: Vec<(i64, Id)>) -> Val {
        self.is = is;
        self
    }
}

impl std::fmt::Debug for Val {
    fn fmt(&self, f: &mut std::fmt::Formatter<'_>) -> std::fmt::Result {
        write!(f, "Val({}#{})", self.v, self.serial)
    }
}

impl PartialEq for Val {
    fn eq(&self, o: &Val) -> bool {
        let r = self.v == o.v && self.hs == o.hs && self.is == o.is;
        // cbn: the index of the callback point that follows (crash-point enumeration visits every `eq` point)
        ev!("e": "eq", "a": self.serial, "b": o.serial, "r": r, "cbn": crate::log::CB_COUNT.load(std::sync::atomic::Ordering::SeqCst) + 1);
        cb("eq");
        r
    }
}
impl Eq for Val {}

impl Drop for Val {
    fn drop(&mut self) {
        ev!("e": "drop", "s": self.serial);
    }
}

/// Identity-field / interned-field value with logging `Hash`/`Eq` (crash points for C22).
#[derive(Clone, Debug)]
pub struct Kv(pub i64);
impl PartialEq for Kv {
    fn eq(&self, o: &Kv) -> bool {
        cb("keq");
        self.0 == o.0
    }
}
impl Eq for Kv {}
impl Hash for Kv {
    fn hash<H: Hasher>(&self, h: &mut H) {
        cb("khash");
        // values >= 10 all collide: identity hashes of different identity-field values coincide
        // (structcoll family: the "identity fields differ under the same identity hash" path)
        if self.0 >= 10 { 10i64.hash(h) } else { self.0.hash(h) }
    }
}


/// Numeric decomposition of an abstract key for the TLA+ side (strings are atomic there):
/// `(kj, km, ki)` = Node-fn index, struct/interned family (s: 1..4, i: 10+kind), id string.
pub fn kparts(key: &str) -> (i64, i64, String) {
    if let Some(r) = key.strip_prefix('f') {
        if let Ok(j) = r.parse::<i64>() {
            return (j, 0, String::new());
        }
    }
    if let Some((head, id)) = key.split_once('@') {
        if let Some(m) = head.strip_prefix('s') {
            if let Ok(m) = m.parse::<i64>() {
                return (0, m, id.to_string());
            }
        }
        if let Some(m) = head.strip_prefix('i') {
            if let Ok(m) = m.parse::<i64>() {
                return (0, 10 + m, id.to_string());
            }
        }
        if let Some(m) = head.strip_prefix('I') {
            if let Ok(m) = m.parse::<i64>() {
                return (0, 20 + m, id.to_string());
            }
        }
        if head == "T" {
            return (0, 30, id.to_string());
        }
        return (0, 0, id.to_string());
    }
    (0, 0, String::new())
}

#[macro_export]
macro_rules! evk {
    ($key:expr, $($tt:tt)*) => {{
        let (kj, km, ki) = $crate::items::kparts(&$key);
        $crate::log::emit(serde_json::json!({"t": $crate::log::tid(), "k": $key, "kj": kj, "km": km, "ki": ki, $($tt)*}))
    }};
}

/// Interned-field value: `Hash` deliberately keeps one bit only, so that many values share an
/// interner shard and slot reuse (which only happens within a shard) is frequent.
#[derive(Clone, Debug)]
pub struct Ki(pub i64);
impl PartialEq for Ki {
    fn eq(&self, o: &Ki) -> bool {
        cb("keq");
        self.0 == o.0
    }
}
impl Eq for Ki {}
impl Hash for Ki {
    fn hash<H: Hasher>(&self, h: &mut H) {
        cb("khash");
        (self.0 & 1).hash(h)
    }
}

pub fn idstr(id: Id) -> String {
    format!("{}.{}", id.index(), id.generation())
}

// ---------------------------------------------------------------------------------------
// database

pub struct Cx {
    pub prog: Program,
    pub cells: Vec<AtomicI64>,
    /// Node id -> abstract function index (1-based)
    pub node_fn: Mutex<HashMap<Id, usize>>,
    pub nodes: Mutex<Vec<FNode>>,
    pub ins: Mutex<Vec<In>>,
}

#[salsa::db]
pub trait Db: salsa::Database {
    fn cx(&self) -> &Cx;
}

#[salsa::db]
#[derive(Clone)]
pub struct VDb {
    storage: salsa::Storage<Self>,
    pub cx: Arc<Cx>,
}

#[salsa::db]
impl salsa::Database for VDb {}

#[salsa::db]
impl Db for VDb {
    fn cx(&self) -> &Cx {
        &self.cx
    }
}

static ING_NAMES: Mutex<Option<HashMap<salsa::IngredientIndex, String>>> = Mutex::new(None);

fn ing_name(ix: salsa::IngredientIndex) -> String {
    let mut g = ING_NAMES.lock().unwrap_or_else(|e| e.into_inner());
    let m = g.get_or_insert_with(HashMap::new);
    if let Some(n) = m.get(&ix) {
        return n.clone();
    }
    let n = salsa::with_attached_database(|db| db.ingredient_debug_name(ix).to_string());
    match n {
        Some(n) => {
            m.insert(ix, n.clone());
            n
        }
        None => format!("?{ix:?}"),
    }
}

/// Pending `(ingredient, id)` -> abstract key for `q2` (its key is an interned argument tuple).
static Q2_KEYS: Mutex<Option<HashMap<Id, String>>> = Mutex::new(None);

pub fn reset_globals() {
    *Q2_KEYS.lock().unwrap_or_else(|e| e.into_inner()) = None;
    *ING_NAMES.lock().unwrap_or_else(|e| e.into_inner()) = None;
}

/// The context of the database currently under test (for hook events, which carry no db).
pub static CUR_CX: Mutex<Option<Arc<Cx>>> = Mutex::new(None);

/// Raw (ingredient, id) key for protocol events: stable identity, no abstraction.
/// Lock-free map from the slot index of an `FNode` to the function index of the current job (0 = unknown):
/// hook events are emitted under salsa's locks, where the harness must not take locks of its own.
pub static NODE_FN_FAST: [std::sync::atomic::AtomicUsize; 1024] = [const { std::sync::atomic::AtomicUsize::new(0) }; 1024];

/// Function index of a function-ingredient key (0 if it is not a program function).
pub fn fn_index_fast(k: salsa::DatabaseKeyIndex) -> usize {
    match ing_name(k.ingredient_index()).as_str() {
        "q1" | "q1_noeq" | "q1_lru" | "c_fix" | "c_fixjoin" | "c_fb" | "qmany" => NODE_FN_FAST
            .get(k.key_index().index() as usize)
            .map(|a| a.load(std::sync::atomic::Ordering::Relaxed))
            .unwrap_or(0),
        _ => 0,
    }
}

pub fn raw_key(k: salsa::DatabaseKeyIndex) -> String {
    format!("{}#{}", ing_name(k.ingredient_index()), idstr(k.key_index()))
}

pub fn abs_key_global(k: salsa::DatabaseKeyIndex) -> String {
    let cx = CUR_CX.lock().unwrap_or_else(|e| e.into_inner()).clone();
    abs_key(cx.as_deref(), k)
}

/// Map a salsa key to the abstract key used in traces.
pub fn abs_key(cx: Option<&Cx>, k: salsa::DatabaseKeyIndex) -> String {
    let name = ing_name(k.ingredient_index());
    let id = k.key_index();
    let node_key = |id: Id| -> String {
        if let Some(cx) = cx {
            if let Some(j) = cx.node_fn.lock().unwrap_or_else(|e| e.into_inner()).get(&id) {
                return format!("f{j}");
            }
        }
        format!("?node{}", idstr(id))
    };
    match name.as_str() {
        "q1" | "q1_noeq" | "q1_lru" | "c_fix" | "c_fixjoin" | "c_fb" | "qmany" => node_key(id),
        "q0" => {
            // singleton key: the abstract index is the (unique) fn of kind q0
            if let Some(cx) = cx {
                for (j, f) in cx.prog.fns.iter().enumerate() {
                    if f.kind == "q0" {
                        return format!("f{}", j + 1);
                    }
                }
            }
            "?q0".to_string()
        }
        "q2" => {
            let g = Q2_KEYS.lock().unwrap_or_else(|e| e.into_inner());
            match g.as_ref().and_then(|m| m.get(&id)) {
                Some(s) => s.clone(),
                None => format!("?q2@{}", idstr(id)),
            }
        }
        "qs1" => format!("s1@{}", idstr(id)),
        "qs2" => format!("s2@{}", idstr(id)),
        "qspec" => format!("s3@{}", idstr(id)),
        "qi1" => format!("i1@{}", idstr(id)),
        "qi2" => format!("i2@{}", idstr(id)),
        "qi3" => format!("i3@{}", idstr(id)),
        "qi4" => format!("i4@{}", idstr(id)),
        "T" => format!("T@{}", idstr(id)),
        "I1" => format!("I1@{}", idstr(id)),
        "I2" => format!("I2@{}", idstr(id)),
        "I3" => format!("I3@{}", idstr(id)),
        "I4" => format!("I4@{}", idstr(id)),
        other => format!("{other}@{}", idstr(id)),
    }
}

pub fn new_db(prog: Program) -> VDb {
    let cx = Arc::new(Cx {
        cells: prog.cells.iter().map(|c| AtomicI64::new(*c)).collect(),
        prog,
        node_fn: Mutex::new(HashMap::new()),
        nodes: Mutex::new(Vec::new()),
        ins: Mutex::new(Vec::new()),
    });
    let cx2 = cx.clone();
    let storage = salsa::Storage::new(Some(Box::new(move |event: salsa::Event| {
        use salsa::EventKind::*;
        let cx = Some(&*cx2);
        match event.kind {
            WillExecute { database_key } => {
                let k = abs_key(cx, database_key);
                if k.starts_with("?q2") {
                    // resolved at the following body_start on this thread
                    PENDING_WE.with(|p| *p.borrow_mut() = Some(database_key.key_index()));
                } else {
                    evk!(k, "e": "we");
                }
            }
            DidValidateMemoizedValue { database_key } => {
                evk!(abs_key(cx, database_key), "e": "dv");
            }
            WillBlockOn {
                other_thread_id: _,
                database_key,
            } => {
                evk!(abs_key(cx, database_key), "e": "wbo");
            }
            WillIterateCycle {
                database_key,
                iteration,
            } => {
                evk!(abs_key(cx, database_key), "e": "wic", "it": iteration);
            }
            DidFinalizeCycle {
                database_key,
                iteration,
            } => {
                evk!(abs_key(cx, database_key), "e": "dfc", "it": iteration);
            }
            WillCheckCancellation => {
                if crate::log::LOG_WCC.load(Ordering::Relaxed) != 0 {
                    ev!("e": "wcc");
                }
            }
            DidSetCancellationFlag => {
                ev!("e": "dscf");
            }
            WillDiscardStaleOutput {
                execute_key,
                output_key,
            } => {
                evk!(abs_key(cx, execute_key), "e": "wdso", "o": abs_key(cx, output_key));
            }
            DidDiscard { key } => {
                evk!(abs_key(cx, key), "e": "dd");
            }
            DidDiscardAccumulated { executor_key, .. } => {
                evk!(abs_key(cx, executor_key), "e": "dda");
            }
            DidInternValue { key, revision } => {
                evk!(abs_key(cx, key), "e": "div", "r": format!("{revision:?}"), "ix": key.key_index().index(), "gn": key.key_index().generation());
            }
            DidReuseInternedValue { key, revision } => {
                evk!(abs_key(cx, key), "e": "driv", "r": format!("{revision:?}"), "ix": key.key_index().index(), "gn": key.key_index().generation());
            }
            DidValidateInternedValue { key, revision } => {
                evk!(abs_key(cx, key), "e": "dviv", "r": format!("{revision:?}"), "ix": key.key_index().index(), "gn": key.key_index().generation());
            }
        }
        cb("event");
    })));
    let db = VDb { storage, cx };
    *CUR_CX.lock().unwrap_or_else(|e| e.into_inner()) = Some(db.cx.clone());
    // inputs
    {
        let mut ins = db.cx.ins.lock().unwrap();
        for fields in db.cx.prog.inputs.iter() {
            let a = fields[0];
            let b = fields[1];
            let i = In::builder(a[0], b[0])
                .a_durability(dur(a[1]))
                .b_durability(dur(b[1]))
                .new(&db);
            ins.push(i);
        }
    }
    {
        let mut nodes = db.cx.nodes.lock().unwrap();
        let mut node_fn = db.cx.node_fn.lock().unwrap();
        for j in 0..db.cx.prog.fns.len() {
            let n = FNode::new(&db, j as u32 + 1);
            node_fn.insert(n.as_id(), j + 1);
            if let Some(a) = NODE_FN_FAST.get(n.as_id().index() as usize) {
                a.store(j + 1, std::sync::atomic::Ordering::Relaxed);
            }
            nodes.push(n);
        }
    }
    if db.cx.prog.lru_cap >= 0 {
        // the declared capacity is `LRU_DECL`; programs choose their own initial capacity
    }
    db
}

thread_local! {
    static PENDING_WE: std::cell::RefCell<Option<Id>> = const { std::cell::RefCell::new(None) };
}

pub fn dur(d: i64) -> Durability {
    match d {
        0 => Durability::LOW,
        1 => Durability::MEDIUM,
        2 => Durability::HIGH,
        _ => Durability::NEVER_CHANGE,
    }
}

// ---------------------------------------------------------------------------------------
// salsa items

#[salsa::input]
pub struct In {
    #[returns(copy)]
    pub a: i64,
    #[returns(copy)]
    pub b: i64,
}

/// Key of the "plain" function families; never written, its field is never read.
#[salsa::input]
pub struct FNode {
    #[returns(copy)]
    pub idx: u32,
}

#[salsa::tracked]
pub struct T<'db> {
    #[returns(ref)]
    pub ident: Kv,
    #[tracked]
    #[returns(ref)]
    pub x: Val,
    #[tracked]
    #[returns(ref)]
    pub y: Val,
}

#[salsa::interned(revisions = 1)]
pub struct I1<'db> {
    #[returns(ref)]
    pub v: Ki,
}
#[salsa::interned(revisions = 2)]
pub struct I2<'db> {
    #[returns(ref)]
    pub v: Ki,
}
#[salsa::interned(revisions = 3)]
pub struct I3<'db> {
    #[returns(ref)]
    pub v: Ki,
}
#[salsa::interned(revisions = usize::MAX)]
pub struct I4<'db> {
    #[returns(ref)]
    pub v: Ki,
}

#[salsa::accumulator]
#[derive(Debug)]
pub struct Acc(pub i64);

pub const LRU_DECL: usize = 2;

#[salsa::tracked(returns(ref))]
pub fn q1(db: &dyn Db, n: FNode) -> Val {
    run_node(db, n)
}
#[salsa::tracked(returns(ref), no_eq)]
pub fn q1_noeq(db: &dyn Db, n: FNode) -> Val {
    run_node(db, n)
}
#[salsa::tracked(returns(ref), lru = 2)]
pub fn q1_lru(db: &dyn Db, n: FNode) -> Val {
    run_node(db, n)
}
#[salsa::tracked(returns(ref))]
pub fn q0(db: &dyn Db) -> Val {
    let j = db
        .cx()
        .prog
        .fns
        .iter()
        .position(|f| f.kind == "q0")
        .expect("q0 fn")
        + 1;
    run(db, format!("f{j}"), FnSel::F(j), vec![], vec![])
}
#[salsa::tracked(returns(ref))]
pub fn q2(db: &dyn Db, n: FNode, tag: u8) -> Val {
    let _ = tag;
    run_node(db, n)
}
/// Creates `MANY` tracked structs (identities 0..MANY) in one execution (C24: page boundaries).
pub const MANY: i64 = 150;
#[salsa::tracked(returns(ref))]
pub fn qmany(db: &dyn Db, n: FNode) -> Val {
    let j = node_index(db, n.as_id());
    let key = format!("f{j}");
    ev!("e": "bs", "k": key, "kj": j, "km": 0, "ki": "");
    let mut ids = vec![];
    for i in 0..MANY {
        let t = T::new(db, Kv(i), Val::new(i % 7, vec![]), Val::new(j as i64, vec![]));
        let id = t.as_id();
        evk!(key, "e": "new", "id": idstr(id), "ix": id.index(), "gn": id.generation(), "ident": i, "x": i % 7, "y": j, "pos": ids.len() + 1, "xs": 0, "ys": 0);
        ids.push(id);
    }
    let v = Val::new(0, ids);
    evk!(key, "e": "be", "v": 0, "hs": Vec::<String>::new(), "is": Vec::<String>::new(), "s": v.serial);
    v
}

#[salsa::tracked(returns(ref), cycle_fn = fix_recover, cycle_initial = fix_initial)]
pub fn c_fix(db: &dyn Db, n: FNode) -> Val {
    run_node(db, n)
}
#[salsa::tracked(returns(ref), cycle_fn = fixjoin_recover, cycle_initial = fix_initial)]
pub fn c_fixjoin(db: &dyn Db, n: FNode) -> Val {
    run_node(db, n)
}
#[salsa::tracked(returns(ref), cycle_result = fb_result)]
pub fn c_fb(db: &dyn Db, n: FNode) -> Val {
    run_node(db, n)
}

fn node_index(db: &dyn Db, id: Id) -> usize {
    *db.cx()
        .node_fn
        .lock()
        .unwrap_or_else(|e| e.into_inner())
        .get(&id)
        .expect("known node")
}

fn fix_initial(db: &dyn Db, id: Id, _n: FNode) -> Val {
    let j = node_index(db, id);
    evk!(format!("f{j}"), "e": "cinit");
    cb("cycle_initial");
    Val::new(db.cx().prog.fns[j - 1].init, vec![])
}
fn fix_recover(db: &dyn Db, cycle: &salsa::Cycle, last: &Val, new: Val, _n: FNode) -> Val {
    let j = node_index(db, cycle.id());
    evk!(format!("f{j}"), "e": "cfn", "it": cycle.iteration(), "last": last.v, "new": new.v);
    cb("cycle_fn");
    new
}
fn fixjoin_recover(db: &dyn Db, cycle: &salsa::Cycle, last: &Val, new: Val, _n: FNode) -> Val {
    let j = node_index(db, cycle.id());
    evk!(format!("f{j}"), "e": "cfn", "it": cycle.iteration(), "last": last.v, "new": new.v);
    cb("cycle_fn");
    Val::new(last.v | new.v, vec![])
}
fn fb_result(db: &dyn Db, id: Id, _n: FNode) -> Val {
    let j = node_index(db, id);
    evk!(format!("f{j}"), "e": "cres");
    cb("cycle_result");
    Val::new(db.cx().prog.fns[j - 1].init, vec![])
}

#[salsa::tracked(returns(ref))]
pub fn qs1<'db>(db: &'db dyn Db, t: T<'db>) -> Val {
    run(db, format!("s1@{}", idstr(t.as_id())), FnSel::S(1), vec![t.as_id()], vec![])
}
#[salsa::tracked(returns(ref))]
pub fn qs2<'db>(db: &'db dyn Db, t: T<'db>) -> Val {
    run(db, format!("s2@{}", idstr(t.as_id())), FnSel::S(2), vec![t.as_id()], vec![])
}
#[salsa::tracked(returns(ref), specify)]
pub fn qspec<'db>(db: &'db dyn Db, t: T<'db>) -> Val {
    run(db, format!("s3@{}", idstr(t.as_id())), FnSel::S(3), vec![t.as_id()], vec![])
}
#[salsa::tracked(returns(ref))]
pub fn qi1<'db>(db: &'db dyn Db, i: I1<'db>) -> Val {
    run(db, format!("i1@{}", idstr(i.as_id())), FnSel::I(1), vec![], vec![(1, i.as_id())])
}
#[salsa::tracked(returns(ref))]
pub fn qi2<'db>(db: &'db dyn Db, i: I2<'db>) -> Val {
    run(db, format!("i2@{}", idstr(i.as_id())), FnSel::I(1), vec![], vec![(2, i.as_id())])
}
#[salsa::tracked(returns(ref))]
pub fn qi3<'db>(db: &'db dyn Db, i: I3<'db>) -> Val {
    run(db, format!("i3@{}", idstr(i.as_id())), FnSel::I(1), vec![], vec![(3, i.as_id())])
}
#[salsa::tracked(returns(ref))]
pub fn qi4<'db>(db: &'db dyn Db, i: I4<'db>) -> Val {
    run(db, format!("i4@{}", idstr(i.as_id())), FnSel::I(1), vec![], vec![(4, i.as_id())])
}

// ---------------------------------------------------------------------------------------
// interpreter

#[derive(Clone, Copy)]
pub enum FnSel {
    F(usize),
    S(usize),
    I(usize),
}

fn run_node(db: &dyn Db, n: FNode) -> Val {
    let j = node_index(db, n.as_id());
    run(db, format!("f{j}"), FnSel::F(j), vec![], vec![])
}

/// Call abstract function `j` (dispatch on its declared kind). Returns `(v, exported handles)`.
pub fn call_fn<'db>(db: &'db dyn Db, j: usize) -> &'db Val {
    let cx = db.cx();
    let kind = cx.prog.fns[j - 1].kind.as_str();
    let n = cx.nodes.lock().unwrap_or_else(|e| e.into_inner())[j - 1];
    match kind {
        "plain" => q1(db, n),
        "noeq" => q1_noeq(db, n),
        "lru" => q1_lru(db, n),
        "q0" => q0(db),
        "q2" => {
            let tag = (j % 3) as u8;
            q2(db, n, tag)
        }
        "many" => qmany(db, n),
        "fix" => c_fix(db, n),
        "fixjoin" => c_fixjoin(db, n),
        "fb" => c_fb(db, n),
        k => panic!("unknown fn kind {k}"),
    }
}

pub fn call_sfn<'db>(db: &'db dyn Db, m: usize, id: Id) -> &'db Val {
    let t = T::from_id(id);
    match m {
        1 => qs1(db, t),
        2 => qs2(db, t),
        _ => qspec(db, t),
    }
}

pub fn call_ifn<'db>(db: &'db dyn Db, kind: i64, id: Id) -> &'db Val {
    match kind {
        1 => qi1(db, I1::from_id(id)),
        2 => qi2(db, I2::from_id(id)),
        3 => qi3(db, I3::from_id(id)),
        _ => qi4(db, I4::from_id(id)),
    }
}

pub fn read_interned(db: &dyn Db, kind: i64, id: Id) -> i64 {
    match kind {
        1 => I1::from_id(id).v(db).0,
        2 => I2::from_id(id).v(db).0,
        3 => I3::from_id(id).v(db).0,
        _ => I4::from_id(id).v(db).0,
    }
}

pub fn do_intern(db: &dyn Db, kind: i64, v: i64) -> Id {
    match kind {
        1 => I1::new(db, Ki(v)).as_id(),
        2 => I2::new(db, Ki(v)).as_id(),
        3 => I3::new(db, Ki(v)).as_id(),
        _ => I4::new(db, Ki(v)).as_id(),
    }
}

fn run(db: &dyn Db, key: String, sel: FnSel, hs0: Vec<Id>, is0: Vec<(i64, Id)>) -> Val {
    // late resolution of a pending q2 WillExecute
    PENDING_WE.with(|p| {
        if let Some(id) = p.borrow_mut().take() {
            let mut g = Q2_KEYS.lock().unwrap_or_else(|e| e.into_inner());
            g.get_or_insert_with(HashMap::new).insert(id, key.clone());
            evk!(key, "e": "we");
        }
    });
    let cx = db.cx();
    let def = match sel {
        FnSel::F(j) => &cx.prog.fns[j - 1],
        FnSel::S(m) => &cx.prog.sfns[m - 1],
        FnSel::I(m) => &cx.prog.ifns[m - 1],
    };
    evk!(key, "e": "bs");
    cb("body");
    if let FnSel::F(j) = sel {
        crate::log::cb_body(j as i64);
    }
    let mut hs = hs0; // struct handles visible to this body
    let mut is = is0; // interned handles
    let mut created: Vec<Id> = vec![];
    let mut created_is: Vec<(i64, Id)> = vec![];
    let mut r: i64 = 0;
    let mut n = 1usize;
    let mut steps = 0;
    loop {
        steps += 1;
        assert!(steps < 10_000, "runaway program");
        let nd = &def.nodes[n - 1];
        let kid = |v: i64| -> usize {
            if nd.kids.is_empty() {
                panic!("node without kids")
            }
            let ix = (v as usize).min(nd.kids.len() - 1);
            nd.kids[ix]
        };
        match nd.op.as_str() {
            "ret" => {
                let (xh, xi) = if def.fwd != 0 && matches!(sel, FnSel::F(_)) {
                    (hs.clone(), is.clone())
                } else {
                    (created.clone(), created_is.clone())
                };
                let v = Val::new(nd.a, xh.clone()).with_is(xi.clone());
                evk!(key, "e": "be", "v": v.v, "hs": xh.iter().map(|i| idstr(*i)).collect::<Vec<_>>(),
                    "is": xi.iter().map(|(k, i)| format!("I{k}@{}", idstr(*i))).collect::<Vec<_>>(), "s": v.serial);
                return v;
            }
            "retr" => {
                let (xh, xi) = if def.fwd != 0 && matches!(sel, FnSel::F(_)) {
                    (hs.clone(), is.clone())
                } else {
                    (created.clone(), created_is.clone())
                };
                let v = Val::new(r, xh.clone()).with_is(xi.clone());
                evk!(key, "e": "be", "v": v.v, "hs": xh.iter().map(|i| idstr(*i)).collect::<Vec<_>>(),
                    "is": xi.iter().map(|(k, i)| format!("I{k}@{}", idstr(*i))).collect::<Vec<_>>(), "s": v.serial);
                return v;
            }
            "in" => {
                let i = cx.ins.lock().unwrap_or_else(|e| e.into_inner())[nd.a as usize - 1];
                let v = if nd.b == 1 { i.a(db) } else { i.b(db) };
                evk!(key, "e": "rd", "sj": 0, "st": "in", "sa": nd.a, "sb": nd.b, "sk": "", "v": v);
                cb("read");
                n = kid(v);
            }
            "cell" => {
                db.report_untracked_read();
                let v = cx.cells[nd.a as usize - 1].load(Ordering::SeqCst);
                evk!(key, "e": "rd", "sj": 0, "st": "cell", "sa": nd.a, "sb": 0, "sk": "", "v": v);
                cb("read");
                n = kid(v);
            }
            "untr" => {
                db.report_untracked_read();
                evk!(key, "e": "rd", "sj": 0, "st": "untr", "sa": 0, "sb": 0, "sk": "", "v": 0);
                n = kid(0);
            }
            "call" | "orcall" => {
                let j = nd.a as usize;
                let res = call_fn(db, j);
                let v = res.v;
                let nh = res.hs.len();
                hs.extend(res.hs.iter().copied());
                is.extend(res.is.iter().copied());
                evk!(key, "e": "rd", "sj": j, "st": "fn", "sa": nh, "sb": 0, "sk": format!("f{j}"), "v": v);
                cb("read");
                if nd.op == "call" {
                    n = kid(v);
                } else {
                    r |= v & nd.b;
                    n = kid(0);
                }
            }
            "rv" => {
                // rendezvous (no semantic effect): wait briefly for another thread to reach a rendezvous
                // point too, so that both leave their bodies at the same moment (first-insert races)
                use std::sync::atomic::AtomicU64;
                static RV: AtomicU64 = AtomicU64::new(0);
                let my = RV.fetch_add(1, Ordering::SeqCst);
                let t0 = std::time::Instant::now();
                while RV.load(Ordering::SeqCst) / 2 <= my / 2 && t0.elapsed() < std::time::Duration::from_micros(400) {
                    std::hint::spin_loop();
                }
                n = kid(0);
            }
            "orc" => {
                r |= nd.a;
                n = kid(0);
            }
            "new" => {
                let (vx, vy) = (Val::new(nd.b, vec![]), Val::new(nd.c, vec![]));
                let (xs, ys) = (vx.serial, vy.serial);
                let t = T::new(db, Kv(nd.a), vx, vy);
                let id = t.as_id();
                hs.push(id);
                created.push(id);
                evk!(key, "e": "new", "id": idstr(id), "ix": id.index(), "gn": id.generation(),
                    "ident": nd.a, "x": nd.b, "y": nd.c, "pos": if def.fwd != 0 && matches!(sel, FnSel::F(_)) { hs.len() } else { created.len() }, "xs": xs, "ys": ys);
                cb("read");
                n = kid(0);
            }
            "fld" => {
                let slot = nd.a as usize;
                if slot == 0 || slot > hs.len() {
                    n = kid(0);
                } else {
                    let id = hs[slot - 1];
                    let t = T::from_id(id);
                    let v = match nd.b {
                        0 => t.ident(db).0,
                        1 => t.x(db).v,
                        _ => t.y(db).v,
                    };
                    evk!(key, "e": "rd", "sj": 0, "st": "fld", "sa": slot, "sb": nd.b, "sk": idstr(id), "v": v);
                    cb("read");
                    n = kid(v);
                }
            }
            "calls" => {
                let slot = nd.b as usize;
                if slot == 0 || slot > hs.len() {
                    n = kid(0);
                } else {
                    let id = hs[slot - 1];
                    let m = nd.a as usize;
                    let v = call_sfn(db, m, id).v;
                    evk!(key, "e": "rd", "sj": 0, "st": "sfn", "sa": m, "sb": slot, "sk": format!("s{m}@{}", idstr(id)), "v": v);
                    cb("read");
                    n = kid(v);
                }
            }
            "spec" => {
                let slot = nd.a as usize;
                if slot == 0 || slot > hs.len() {
                    n = kid(0);
                } else {
                    let id = hs[slot - 1];
                    evk!(key, "e": "spec", "sk": format!("s3@{}", idstr(id)), "v": nd.b);
                    let val = Val::new(nd.b, vec![]);
                    evk!(key, "e": "specv", "sk": format!("s3@{}", idstr(id)), "v": nd.b, "s": val.serial);
                    qspec::specify(db, T::from_id(id), val);
                    n = kid(0);
                }
            }
            "intern" => {
                let id = do_intern(db, nd.a, nd.b);
                is.push((nd.a, id));
                created_is.push((nd.a, id));
                evk!(key, "e": "int", "kind": nd.a, "v": nd.b, "id": idstr(id), "ix": id.index(), "gn": id.generation());
                cb("read");
                n = kid(0);
            }
            "rdint" => {
                let slot = nd.a as usize;
                if slot == 0 || slot > is.len() {
                    n = kid(0);
                } else {
                    let (kind, id) = is[slot - 1];
                    let v = read_interned(db, kind, id);
                    evk!(key, "e": "rd", "sj": 0, "st": "int", "sa": kind, "sb": slot, "sk": format!("I{kind}@{}", idstr(id)), "v": v,
                        "ix": id.index(), "gn": id.generation());
                    cb("read");
                    n = kid(v);
                }
            }
            "calli" => {
                let slot = nd.a as usize;
                if slot == 0 || slot > is.len() {
                    n = kid(0);
                } else {
                    let (kind, id) = is[slot - 1];
                    let v = call_ifn(db, kind, id).v;
                    evk!(key, "e": "rd", "sj": 0, "st": "ifn", "sa": kind, "sb": slot, "sk": format!("i{kind}@{}", idstr(id)), "v": v);
                    cb("read");
                    n = kid(v);
                }
            }
            "acc" => {
                evk!(key, "e": "accv", "v": nd.a);
                Acc(nd.a).accumulate(db);
                n = kid(0);
            }
            o => panic!("unknown op {o}"),
        }
    }
}

// ---------------------------------------------------------------------------------------
// top-level operations used by the drivers

pub fn set_input(db: &mut VDb, i: usize, f: i64, v: i64, d: i64) {
    let inp = db.cx.ins.lock().unwrap()[i - 1];
    match (f, d) {
        (1, -1) => {
            inp.set_a(db).to(v);
        }
        (1, d) => {
            inp.set_a(db).with_durability(dur(d)).to(v);
        }
        (_, -1) => {
            inp.set_b(db).to(v);
        }
        (_, d) => {
            inp.set_b(db).with_durability(dur(d)).to(v);
        }
    }
}

/// C24: create `count` inputs through `&db` (possible on clones, concurrently), read every one back.
pub fn make_inputs(db: &VDb, count: i64, tag: i64) {
    for i in 0..count {
        let inp = In::new(db, i, tag);
        let id = inp.as_id();
        ev!("e": "newin", "id": idstr(id), "ix": id.index(), "gn": id.generation(), "a": i, "b": tag);
        crate::log::jitter();
        ev!("e": "rdin", "id": idstr(id), "a": inp.a(db), "b": inp.b(db));
    }
}

/// C24 / C08: intern `count` immortal values outside of any query, read every one back.
pub fn make_interned(db: &VDb, count: i64, base: i64) {
    for i in 0..count {
        let v = base + i;
        let id = do_intern(db, 4, v);
        ev!("e": "tintern", "kind": 4, "v": v, "id": idstr(id), "ix": id.index(), "gn": id.generation());
        crate::log::jitter();
        ev!("e": "trdint", "kind": 4, "id": idstr(id), "v": read_interned(db, 4, id));
    }
}

pub fn set_lru(db: &mut VDb, cap: usize) {
    q1_lru::set_lru_capacity(db, cap);
}

pub fn accumulated(db: &VDb, j: usize) -> Vec<i64> {
    let cx = db.cx.clone();
    let kind = cx.prog.fns[j - 1].kind.as_str();
    let n = cx.nodes.lock().unwrap()[j - 1];
    let v: Vec<&Acc> = match kind {
        "plain" => q1::accumulated::<Acc>(db, n),
        "noeq" => q1_noeq::accumulated::<Acc>(db, n),
        "lru" => q1_lru::accumulated::<Acc>(db, n),
        "q0" => q0::accumulated::<Acc>(db),
        "q2" => q2::accumulated::<Acc>(db, n, (j % 3) as u8),
        k => panic!("accumulated on kind {k}"),
    };
    v.iter().map(|a| a.0).collect()
}
