//! Global, totally ordered event log (ndjson). The sequence number is taken under the log
//! mutex, so the file order is a linearisation consistent with per-thread program order and
//! with happens-before through this mutex (DESIGN.md §5.4).
use std::cell::Cell;
use std::io::Write;
use std::sync::Mutex;
use std::sync::atomic::{AtomicI64, AtomicU64, Ordering};

pub struct Logger {
    out: Option<Box<dyn Write + Send>>,
    pub lines: u64,
}

pub static LOG: Mutex<Logger> = Mutex::new(Logger {
    out: None,
    lines: 0,
});

/// Serial numbers of `Val`s (unique per process).
pub static SERIAL: AtomicU64 = AtomicU64::new(1);
/// Count of user callbacks executed in the current job (C22 crash points).
pub static CB_COUNT: AtomicI64 = AtomicI64::new(0);
/// Panic at the k-th user callback (0 = never).
pub static INJECT_AT: AtomicI64 = AtomicI64::new(0);
/// Suppress logging (used while tearing down).
pub static QUIET: AtomicI64 = AtomicI64::new(0);
/// Log `WillCheckCancellation` events (only the cancellation drivers need them).
pub static LOG_WCC: AtomicI64 = AtomicI64::new(0);

thread_local! {
    /// Logical thread / handle number of the current OS thread (0 = driver main).
    pub static TID: Cell<i64> = const { Cell::new(0) };
}

pub fn tid() -> i64 {
    TID.with(|t| t.get())
}
pub fn set_tid(t: i64) {
    TID.with(|c| c.set(t));
}

pub fn open(path: &str) {
    let f = std::fs::File::create(path).expect("create trace file");
    let mut l = LOG.lock().unwrap_or_else(|e| e.into_inner());
    l.out = Some(Box::new(std::io::BufWriter::with_capacity(1 << 20, f)));
    l.lines = 0;
}

pub fn close() {
    let mut l = LOG.lock().unwrap_or_else(|e| e.into_inner());
    if let Some(o) = l.out.as_mut() {
        let _ = o.flush();
    }
    l.out = None;
}

pub fn lines() -> u64 {
    LOG.lock().unwrap_or_else(|e| e.into_inner()).lines
}

pub fn flush() {
    let mut l = LOG.lock().unwrap_or_else(|e| e.into_inner());
    if let Some(o) = l.out.as_mut() {
        let _ = o.flush();
    }
}

pub fn emit(v: serde_json::Value) {
    if QUIET.load(Ordering::Relaxed) != 0 {
        return;
    }
    let mut l = LOG.lock().unwrap_or_else(|e| e.into_inner());
    l.lines += 1;
    if let Some(o) = l.out.as_mut() {
        let _ = serde_json::to_writer(&mut *o, &v);
        let _ = o.write_all(b"\n");
    }
}

#[macro_export]
macro_rules! ev {
    ($($tt:tt)*) => {
        $crate::log::emit(serde_json::json!({"t": $crate::log::tid(), $($tt)*}))
    };
}

/// Schedule jitter (real-thread drivers): per-mille probability of yielding at a callback point.
pub static JITTER: AtomicI64 = AtomicI64::new(0);
thread_local! {
    static RNG: Cell<u64> = const { Cell::new(0x9E3779B97F4A7C15) };
}
pub fn seed_thread_rng(s: u64) {
    RNG.with(|r| r.set(s | 1));
}
fn next_rand() -> u64 {
    RNG.with(|r| {
        let mut x = r.get();
        x ^= x << 13;
        x ^= x >> 7;
        x ^= x << 17;
        r.set(x);
        x
    })
}
pub fn jitter() {
    let j = JITTER.load(Ordering::Relaxed);
    if j > 0 {
        let x = next_rand();
        if (x % 1000) < j as u64 {
            if (x >> 20) % 4 == 0 {
                std::thread::sleep(std::time::Duration::from_micros((x >> 30) % 200));
            } else {
                std::thread::yield_now();
            }
        }
    }
}

pub const INJECTED: &str = "VERIF-INJECTED-PANIC";

/// A user callback point (body entry, read, eq, hash, cycle_fn, cycle_initial, event callback).
/// Panics here when this is the armed crash point.
pub fn cb(point: &'static str) {
    jitter();
    let n = CB_COUNT.fetch_add(1, Ordering::SeqCst) + 1;
    let at = INJECT_AT.load(Ordering::SeqCst);
    if at != 0 && n == at {
        // disarm first so unwinding code (Drop, eq in backdating of other queries) is not hit again
        INJECT_AT.store(0, Ordering::SeqCst);
        emit(serde_json::json!({"t": tid(), "e": "inject", "k": n, "at": point}));
        std::panic::panic_any(INJECTED);
    }
}

/// Function index whose next body execution panics (one-shot; history op `arm`).
pub static ARM_FN: std::sync::atomic::AtomicI64 = std::sync::atomic::AtomicI64::new(0);

/// Body entry of program function `j`: panics if `j` is armed.
pub fn cb_body(j: i64) {
    if j > 0 && ARM_FN.load(Ordering::SeqCst) == j {
        ARM_FN.store(0, Ordering::SeqCst);
        emit(serde_json::json!({"t": tid(), "e": "inject", "k": -1, "at": "body-armed"}));
        std::panic::panic_any(INJECTED);
    }
}

pub fn next_serial() -> u64 {
    SERIAL.fetch_add(1, Ordering::Relaxed)
}
