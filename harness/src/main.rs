//! `drive <mode> <jobs.ndjson> <trace.ndjson>`: run jobs against real salsa, record traces.
#[cfg(feature = "hooks")]
mod codec;
mod items;
mod log;
mod par;
#[cfg(feature = "persistence")]
mod persist;
mod seq;
mod types;

use std::io::BufRead;

fn main() {
    let args: Vec<String> = std::env::args().collect();
    if args.len() < 4 {
        eprintln!("usage: drive <seq> <jobs.ndjson> <trace.ndjson>");
        std::process::exit(2);
    }
    // panics in the code under test are data; keep stderr quiet
    std::panic::set_hook(Box::new(|_| {}));
    install_sink();
    let mode = args[1].as_str();
    #[cfg(feature = "hooks")]
    if mode == "codec" {
        codec::run(&args[2], &args[3]);
        return;
    }
    let jobs = std::io::BufReader::new(std::fs::File::open(&args[2]).expect("open jobs"));
    log::open(&args[3]);
    let mut n = 0;
    for line in jobs.lines() {
        let line = line.expect("read job");
        if line.trim().is_empty() {
            continue;
        }
        let job: types::Job = match serde_json::from_str(&line) {
            Ok(j) => j,
            Err(e) => {
                eprintln!("bad job: {e}");
                std::process::exit(2);
            }
        };
        match mode {
            "seq" => seq::run_job(&job),
            #[cfg(feature = "persistence")]
            "persist" => persist::run_job(&job),
            "par" => {
                if !par::run_job(&job) {
                    // a hang: the process cannot recover its threads; stop here (the trace tells)
                    log::close();
                    eprintln!("drive: hang in job {}", job.id);
                    std::process::exit(0);
                }
            }
            m => {
                eprintln!("unknown mode {m}");
                std::process::exit(2);
            }
        }
        n += 1;
    }
    log::close();
    eprintln!("drive: {n} jobs");
}

/// Verification hook sink (`verif-hooks` feature of salsa): protocol events become trace lines.
#[cfg(feature = "hooks")]
fn install_sink() {
    salsa::verif::set_sink(Box::new(|e: &salsa::verif::VerifEvent| {
        match e.name {
            "intern_rev_recorded" => {
                ev!("e": "irec", "cap": e.args[0], "rev": e.args[1]);
            }
            "dg_block" | "dg_cycle" | "dg_unblock" | "dg_wake" | "dg_transfer" | "sync_claim" | "sync_claim_transferred"
            | "sync_release" | "sync_release_self" | "sync_transfer" | "dg_undo_transfer" | "dg_unblock_transferred"
            | "dg_unblock_key" => {
                let k = e.key.map(items::raw_key).unwrap_or_default();
                let k2 = e.key2.map(items::raw_key).unwrap_or_default();
                // thread-number arguments are translated to the job's logical thread indices
                let (a0, a1) = match e.name {
                    "dg_block" | "dg_cycle" | "dg_transfer" => (par::logical(e.args[0]), par::logical(e.args[1])),
                    "dg_unblock" | "dg_wake" | "sync_claim" | "sync_claim_transferred" | "sync_release" | "sync_release_self"
                    | "sync_transfer" => (par::logical(e.args[0]), e.args[1] as i64),
                    _ => (e.args[0] as i64, e.args[1] as i64),
                };
                ev!("e": "hk", "name": e.name, "k": k, "k2": k2, "a0": a0, "a1": a1, "a2": e.args[2], "a3": e.args[3], "text": e.text,
                    "kj": e.key.map(items::fn_index_fast).unwrap_or(0));
            }
            "dg_edges" => {
                // the wait-for edges after update_transferred_edges, as pairs of logical thread indices
                let k = e.key.map(items::raw_key).unwrap_or_default();
                let k2 = e.key2.map(items::raw_key).unwrap_or_default();
                let d: Vec<[i64; 2]> = e
                    .detail
                    .split(',')
                    .filter(|s| !s.is_empty())
                    .filter_map(|s| {
                        let (a, b) = s.split_once('>')?;
                        Some([par::logical(a.parse().ok()?), par::logical(b.parse().ok()?)])
                    })
                    .collect();
                ev!("e": "hk", "name": e.name, "k": k, "k2": k2, "a0": par::logical(e.args[0]), "a1": par::logical(e.args[1]),
                    "a2": 0, "a3": 0, "text": "", "d": d);
            }
            "writer_proceeds" => {
                ev!("e": "wproc", "clones": e.args[0]);
            }
            name => {
                let k = e.key.map(|k| items::abs_key_global(k)).unwrap_or_default();
                let k2 = e.key2.map(|k| items::abs_key_global(k)).unwrap_or_default();
                ev!("e": "hk", "name": name, "k": k, "k2": k2, "a0": e.args[0], "a1": e.args[1], "a2": e.args[2], "a3": e.args[3], "text": e.text);
            }
        }
    }));
}
#[cfg(not(feature = "hooks"))]
fn install_sink() {}
