//! `drive <mode> <jobs.ndjson> <trace.ndjson>`: run jobs against real salsa, record traces.
mod items;
mod log;
mod seq;
mod types;

use std::io::BufRead;

fn main() {
    let args: Vec<String> = std::env::args().collect();
    if args.len() < 4 {
        eprintln!("usage: drive <seq> <jobs.ndjson> <trace.ndjson>");
        std::process::exit(2);
    }
    // panics in the code under test are data; keep stderr quiet
    std::panic::set_hook(Box::new(|_| {}));
    install_sink();
    let mode = args[1].as_str();
    let jobs = std::io::BufReader::new(std::fs::File::open(&args[2]).expect("open jobs"));
    log::open(&args[3]);
    let mut n = 0;
    for line in jobs.lines() {
        let line = line.expect("read job");
        if line.trim().is_empty() {
            continue;
        }
        let job: types::Job = match serde_json::from_str(&line) {
            Ok(j) => j,
            Err(e) => {
                eprintln!("bad job: {e}");
                std::process::exit(2);
            }
        };
        match mode {
            "seq" => seq::run_job(&job),
            m => {
                eprintln!("unknown mode {m}");
                std::process::exit(2);
            }
        }
        n += 1;
    }
    log::close();
    eprintln!("drive: {n} jobs");
}

/// Verification hook sink (`verif-hooks` feature of salsa): protocol events become trace lines.
#[cfg(feature = "hooks")]
fn install_sink() {
    salsa::verif::set_sink(Box::new(|e: &salsa::verif::VerifEvent| {
        match e.name {
            "intern_rev_recorded" => {
                ev!("e": "irec", "cap": e.args[0], "rev": e.args[1]);
            }
            name => {
                let k = e.key.map(|k| items::abs_key_global(k)).unwrap_or_default();
                let k2 = e.key2.map(|k| items::abs_key_global(k)).unwrap_or_default();
                ev!("e": "hk", "name": name, "k": k, "k2": k2, "a0": e.args[0], "a1": e.args[1], "a2": e.args[2], "a3": e.args[3], "text": e.text);
            }
        }
    }));
}
#[cfg(not(feature = "hooks"))]
fn install_sink() {}
