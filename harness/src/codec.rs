//! `drive codec cases.ndjson out.ndjson`: replay TLC-generated stored-origin cases (EdgeCodec.tla) on the
//! real codec through hook H3 and report every disagreement with the specification's prediction.
use serde::Deserialize;
use std::io::{BufRead, Write};

#[derive(Deserialize, Clone, Debug)]
struct E {
    ing: usize,
    idx: usize,
    #[serde(rename = "gen")]
    generation: usize,
    out: bool,
}
#[derive(Deserialize, Debug)]
struct C {
    kind: u8,
    flags: u8,
    edges: Vec<E>,
}
#[derive(Deserialize, Debug)]
struct X {
    packed: bool,
    kind: u8,
    edges: Vec<E>,
    inputs: Vec<E>,
    outputs: Vec<E>,
    has_extra: bool,
    conv: bool,
    tids: usize,
}
#[derive(Deserialize, Debug)]
struct Case {
    c: C,
    x: X,
}

const ING: [u32; 5] = [0, 1, 0xFFF, 0x1000, 0x7FFF_FFFF];
const IDX: [u32; 2] = [0, u32::MAX - 0xFF - 1];
const GEN: [u32; 5] = [0, 1, 0xFFFFF, 0x10_0000, u32::MAX];

fn real(e: &E) -> (u32, u32, u32, bool) {
    (ING[e.ing - 1], IDX[e.idx - 1], GEN[e.generation - 1], e.out)
}

pub fn run(cases: &str, out: &str) {
    let f = std::io::BufReader::new(std::fs::File::open(cases).expect("cases"));
    let mut o = std::io::BufWriter::new(std::fs::File::create(out).expect("out"));
    let (mut n, mut bad) = (0u64, 0u64);
    for line in f.lines() {
        let line = line.unwrap();
        if line.trim().is_empty() {
            continue;
        }
        let case: Case = serde_json::from_str(&line).expect("case json");
        n += 1;
        let edges: Vec<_> = case.c.edges.iter().map(real).collect();
        let r = std::panic::catch_unwind(|| salsa::verif::codec::round_trip(case.c.kind, &edges, case.c.flags));
        let mut why: Vec<String> = vec![];
        match r {
            Err(_) => why.push("panic".into()),
            Ok(d) => {
                let xe: Vec<_> = case.x.edges.iter().map(real).collect();
                let mut rev = xe.clone();
                rev.reverse();
                let xi: Vec<_> = case.x.inputs.iter().map(|e| { let r = real(e); (r.0, r.1, r.2) }).collect();
                let xo: Vec<_> = case.x.outputs.iter().map(|e| { let r = real(e); (r.0, r.1, r.2) }).collect();
                if d.kind != case.x.kind { why.push(format!("kind {} != {}", d.kind, case.x.kind)); }
                if d.packed != case.x.packed { why.push(format!("layout packed={} expected {}", d.packed, case.x.packed)); }
                if d.edges != xe { why.push(format!("edges {:?} != {:?}", d.edges, xe)); }
                if d.edges_rev != rev { why.push("reverse iteration differs".into()); }
                if d.inputs != xi { why.push(format!("inputs {:?} != {:?}", d.inputs, xi)); }
                if d.outputs != xo { why.push(format!("outputs {:?} != {:?}", d.outputs, xo)); }
                if d.has_extra != case.x.has_extra || d.cycle_converged != case.x.conv || d.tracked_ids != case.x.tids {
                    why.push(format!("extra ({},{},{}) != ({},{},{})", d.has_extra, d.cycle_converged, d.tracked_ids, case.x.has_extra, case.x.conv, case.x.tids));
                }
                if let Some(c) = d.cleared {
                    if c != (0, case.x.has_extra, case.x.conv, case.x.tids) {
                        why.push(format!("after clear_edges {:?}", c));
                    }
                }
                #[cfg(feature = "persistence")]
                {
                    let so = salsa::verif::codec::ser_origin(case.c.kind, &edges);
                    let json = serde_json::to_string(&so).expect("serialize origin");
                    match serde_json::from_str::<salsa::verif::codec::SerOrigin>(&json) {
                        Ok(back) => {
                            let (k, e) = salsa::verif::codec::ser_origin_edges(&back);
                            if k != case.c.kind || e != xe {
                                why.push(format!("serde round trip: kind {k} edges {:?}", e));
                            }
                        }
                        Err(err) => why.push(format!("deserialize: {err}")),
                    }
                }
            }
        }
        if !why.is_empty() {
            bad += 1;
            let _ = writeln!(o, "{}", serde_json::json!({"case": line, "why": why}));
        }
    }
    // assigned origins keep their key, with and without extra
    for (i, key) in [(0u32, 0u32, 0u32), (0xFFF, 7, 0xFFFFF), (0x1000, IDX[1], 0x10_0000), (0x7FFF_FFFF, IDX[1], u32::MAX)].iter().enumerate() {
        for flags in [0u8, 1, 3, 5, 7] {
            n += 1;
            let d = salsa::verif::codec::assigned_round_trip(*key, flags);
            let he = flags & 1 != 0;
            let ok = d.kind == 2 && d.inputs == vec![*key] && d.has_extra == he && d.cycle_converged == (he && flags & 2 != 0)
                && d.tracked_ids == if he && flags & 4 != 0 { 1 } else { 0 };
            if !ok {
                bad += 1;
                let _ = writeln!(o, "{}", serde_json::json!({"case": format!("assigned#{i} flags {flags}"), "why": [format!("{:?}", d)]}));
            }
        }
    }
    let _ = writeln!(o, "{}", serde_json::json!({"summary": {"cases": n, "mismatches": bad}}));
    eprintln!("codec: {n} cases, {bad} mismatches");
}
