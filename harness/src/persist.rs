//! Persistence driver (C26), built only with `--features persistence`:
//! `drive persist jobs trace`: histories with a `persist` operation = serialize (serde_json), drop the
//! database, deserialize into a fresh one of the same type, continue.
use crate::ev;
use crate::evk;
use crate::log::cb;
use crate::seq::classify;
use crate::types::*;
use salsa::plumbing::AsId;
use salsa::{Database, Durability, Id, Setter};
use std::collections::HashMap;
use std::panic::{AssertUnwindSafe, catch_unwind};
use std::sync::{Arc, Mutex};

pub struct PCx {
    pub prog: Program,
    pub node_fn: Mutex<HashMap<Id, usize>>,
    pub nodes: Mutex<Vec<PNode>>,
    pub ins: Mutex<Vec<PIn>>,
}

#[salsa::db]
pub trait PDbT: salsa::Database {
    fn cx(&self) -> &PCx;
}

#[salsa::db]
#[derive(Clone)]
pub struct PDb {
    storage: salsa::Storage<Self>,
    pub cx: Arc<PCx>,
}
#[salsa::db]
impl salsa::Database for PDb {}
#[salsa::db]
impl PDbT for PDb {
    fn cx(&self) -> &PCx {
        &self.cx
    }
}

#[salsa::input(persist)]
pub struct PIn {
    #[returns(copy)]
    pub a: i64,
    #[returns(copy)]
    pub b: i64,
}
#[salsa::input(persist)]
pub struct PNode {
    #[returns(copy)]
    pub idx: u32,
}

/// persisted function
#[salsa::tracked(returns(copy), persist)]
pub fn pq1(db: &dyn PDbT, n: PNode) -> i64 {
    prun(db, n)
}
/// not persisted (its dependencies must be flattened into persisted callers)
#[salsa::tracked(returns(copy))]
pub fn pq_np(db: &dyn PDbT, n: PNode) -> i64 {
    prun(db, n)
}
#[salsa::tracked(returns(copy), persist, no_eq)]
pub fn pq_noeq(db: &dyn PDbT, n: PNode) -> i64 {
    prun(db, n)
}

fn pindex(db: &dyn PDbT, id: Id) -> usize {
    *db.cx().node_fn.lock().unwrap().get(&id).expect("known node")
}

fn pcall(db: &dyn PDbT, j: usize) -> i64 {
    let cx = db.cx();
    let n = cx.nodes.lock().unwrap()[j - 1];
    match cx.prog.fns[j - 1].kind.as_str() {
        "pplain" => pq1(db, n),
        "pnp" => pq_np(db, n),
        "pnoeq" => pq_noeq(db, n),
        k => panic!("unknown persist fn kind {k}"),
    }
}

fn prun(db: &dyn PDbT, n: PNode) -> i64 {
    let j = pindex(db, n.as_id());
    let key = format!("f{j}");
    let cx = db.cx();
    let def = &cx.prog.fns[j - 1];
    evk!(key, "e": "bs");
    cb("body");
    let mut nn = 1usize;
    loop {
        let nd = &def.nodes[nn - 1];
        let kid = |v: i64| nd.kids[(v.max(0) as usize).min(nd.kids.len() - 1)];
        match nd.op.as_str() {
            "ret" => {
                evk!(key, "e": "be", "v": nd.a, "hs": Vec::<String>::new(), "is": Vec::<String>::new(), "s": 0);
                return nd.a;
            }
            "in" => {
                let i = cx.ins.lock().unwrap()[nd.a as usize - 1];
                let v = if nd.b == 1 { i.a(db) } else { i.b(db) };
                evk!(key, "e": "rd", "sj": 0, "st": "in", "sa": nd.a, "sb": nd.b, "sk": "", "v": v);
                nn = kid(v);
            }
            "call" => {
                let g = nd.a as usize;
                let v = pcall(db, g);
                evk!(key, "e": "rd", "sj": g, "st": "fn", "sa": 0, "sb": 0, "sk": format!("f{g}"), "v": v);
                nn = kid(v);
            }
            o => panic!("op {o} not supported by the persistence driver"),
        }
    }
}

fn pdur(d: i64) -> Durability {
    crate::items::dur(d)
}

fn make_db(cx: Arc<PCx>) -> PDb {
    let cx2 = cx.clone();
    let storage = salsa::Storage::new(Some(Box::new(move |event: salsa::Event| {
        use salsa::EventKind::*;
        let key = |k: salsa::DatabaseKeyIndex| -> String {
            match cx2.node_fn.lock().unwrap().get(&k.key_index()) {
                Some(j) => format!("f{j}"),
                None => format!("?{:?}", k.key_index()),
            }
        };
        match event.kind {
            WillExecute { database_key } => {
                evk!(key(database_key), "e": "we");
            }
            DidValidateMemoizedValue { database_key } => {
                evk!(key(database_key), "e": "dv");
            }
            _ => {}
        }
    })));
    PDb { storage, cx }
}

pub fn run_job(job: &Job) {
    ev!("e": "reset", "job": job.id, "prog": serde_json::to_value(&job.prog).unwrap(), "inject": 0, "mode": "persist",
        "s0": crate::log::SERIAL.load(std::sync::atomic::Ordering::SeqCst));
    let cx = Arc::new(PCx { prog: job.prog.clone(), node_fn: Mutex::new(HashMap::new()), nodes: Mutex::new(vec![]), ins: Mutex::new(vec![]) });
    let mut db = make_db(cx.clone());
    for fields in cx.prog.inputs.iter() {
        let i = PIn::builder(fields[0][0], fields[1][0]).a_durability(pdur(fields[0][1])).b_durability(pdur(fields[1][1])).new(&db);
        cx.ins.lock().unwrap().push(i);
    }
    for j in 0..cx.prog.fns.len() {
        let n = PNode::new(&db, j as u32 + 1);
        cx.node_fn.lock().unwrap().insert(n.as_id(), j + 1);
        cx.nodes.lock().unwrap().push(n);
    }
    for (n, op) in job.hist.iter().enumerate() {
        crate::log::emit(serde_json::json!({"t": 0, "e": "op", "n": n + 1, "op": op.op, "f": op.f, "i": op.i, "v": op.v, "d": op.d, "k": op.k, "m": op.m}));
        let r = catch_unwind(AssertUnwindSafe(|| -> Option<i64> {
            match op.op.as_str() {
                "get" => Some(pcall(&db, op.f as usize)),
                "set" => {
                    let inp = cx.ins.lock().unwrap()[op.i as usize - 1];
                    match (op.f, op.d) {
                        (1, -1) => { inp.set_a(&mut db).to(op.v); }
                        (1, d) => { inp.set_a(&mut db).with_durability(pdur(d)).to(op.v); }
                        (_, -1) => { inp.set_b(&mut db).to(op.v); }
                        (_, d) => { inp.set_b(&mut db).with_durability(pdur(d)).to(op.v); }
                    }
                    None
                }
                "synth" => {
                    db.synthetic_write(pdur(op.d));
                    None
                }
                "persist" => {
                    let json = serde_json::to_string(&<dyn salsa::Database>::as_serialize(&mut db)).expect("serialize");
                    if std::env::var("VERIF_DUMP").is_ok() { ev!("e": "persisted", "bytes": json.len(), "json": json.clone()); } else { ev!("e": "persisted", "bytes": json.len()); }
                    let fresh = make_db(cx.clone());
                    let old = std::mem::replace(&mut db, fresh);
                    drop(old);
                    <dyn salsa::Database>::deserialize(&mut db, &mut serde_json::Deserializer::from_str(&json)).expect("deserialize");
                    ev!("e": "restored");
                    None
                }
                o => panic!("unknown persist op {o}"),
            }
        }));
        match r {
            Ok(Some(v)) => ev!("e": "ret", "ok": 1, "kind": "", "msg": "", "v": v, "s": 0, "hs": Vec::<String>::new(), "acc": Vec::<i64>::new(), "ni": 0),
            Ok(None) => ev!("e": "ret", "ok": 1, "kind": "", "msg": "", "v": 0, "s": 0, "hs": Vec::<String>::new(), "acc": Vec::<i64>::new()),
            Err(p) => {
                let (kind, msg) = classify(&p);
                ev!("e": "ret", "ok": 0, "kind": kind, "msg": msg, "v": -1, "s": 0, "hs": Vec::<String>::new(), "acc": Vec::<i64>::new());
            }
        }
    }
    ev!("e": "dbdrop_begin");
    drop(db);
    ev!("e": "dbdrop_end", "cbs": 0, "s1": crate::log::SERIAL.load(std::sync::atomic::Ordering::SeqCst));
}
