//! Sequential driver: one handle, a history of API operations.
use crate::ev;
use crate::items::*;
use crate::log::{CB_COUNT, INJECT_AT, INJECTED};
use crate::types::*;
use salsa::Database;
use std::panic::{AssertUnwindSafe, catch_unwind};
use std::sync::atomic::Ordering;

pub fn classify(p: &Box<dyn std::any::Any + Send>) -> (String, String) {
    if let Some(c) = p.downcast_ref::<salsa::Cancelled>() {
        let k = match c {
            salsa::Cancelled::PendingWrite => "cancel_pw",
            salsa::Cancelled::Local => "cancel_local",
            salsa::Cancelled::PropagatedPanic => "cancel_pp",
            #[allow(unreachable_patterns)]
            _ => "cancel_other",
        };
        return (k.to_string(), String::new());
    }
    let msg = if let Some(s) = p.downcast_ref::<&str>() {
        s.to_string()
    } else if let Some(s) = p.downcast_ref::<String>() {
        s.clone()
    } else {
        "<non-string payload>".to_string()
    };
    let kind = if msg == INJECTED {
        "inject"
    } else if msg.contains("dependency graph cycle") {
        "cycle"
    } else if msg.contains("too many cycle iterations") {
        "iterlimit"
    } else if msg.contains("never-changing inputs cannot be mutated") {
        "never"
    } else {
        "other"
    };
    let short: String = msg.chars().take(160).collect();
    (kind.to_string(), short)
}

fn is_mut(op: &Op) -> bool {
    matches!(op.op.as_str(), "set" | "synth" | "cell" | "lru" | "evict")
}

pub fn run_job(job: &Job) {
    reset_globals();
    CB_COUNT.store(0, Ordering::SeqCst);
    INJECT_AT.store(0, Ordering::SeqCst);
    crate::log::ARM_FN.store(0, Ordering::SeqCst);
    ev!("e": "reset", "job": job.id, "prog": serde_json::to_value(&job.prog).unwrap(), "inject": job.inject, "mode": job.mode,
        "s0": crate::log::SERIAL.load(Ordering::SeqCst));
    let mut db = new_db(job.prog.clone());
    if job.prog.lru_cap != LRU_DECL as i64 && job.prog.lru_cap >= 0 {
        set_lru(&mut db, job.prog.lru_cap as usize);
    }
    INJECT_AT.store(job.inject, Ordering::SeqCst);
    let ops = &job.hist;
    let mut i = 0;
    while i < ops.len() {
        if is_mut(&ops[i]) {
            do_mut(&mut db, &ops[i], i);
            i += 1;
        } else {
            let mut j = i;
            while j < ops.len() && !is_mut(&ops[j]) {
                j += 1;
            }
            {
                let dbr = &db;
                let mut held: Vec<&Val> = vec![];
                for (n, op) in ops[i..j].iter().enumerate() {
                    do_read(dbr, op, i + n, &mut held);
                }
                // C23: every reference handed out in this phase still reads the same value
                for r in held {
                    ev!("e": "retained", "s": r.serial, "v": r.v);
                }
            }
            i = j;
        }
    }
    ev!("e": "dbdrop_begin");
    drop(db);
    ev!("e": "dbdrop_end", "cbs": CB_COUNT.load(Ordering::SeqCst), "s1": crate::log::SERIAL.load(Ordering::SeqCst));
}

fn op_json(op: &Op, n: usize) -> serde_json::Value {
    serde_json::json!({"t": crate::log::tid(), "e": "op", "n": n + 1, "op": op.op, "f": op.f, "i": op.i, "v": op.v, "d": op.d, "k": op.k, "m": op.m})
}

fn end_panic(p: Box<dyn std::any::Any + Send>) {
    let (kind, msg) = classify(&p);
    if kind == "cancel_pw" || (kind == "cancel_pp" && crate::log::LOG_WCC.load(Ordering::Relaxed) != 0) {
        LAST_CANCEL.with(|c| c.set(true));
    }
    // the payload may own nothing of ours; drop it quietly
    drop(p);
    ev!("e": "ret", "ok": 0, "kind": kind, "msg": msg, "v": -1, "s": 0, "hs": Vec::<String>::new(), "acc": Vec::<i64>::new());
}

pub fn do_mut_op(db: &mut VDb, op: &Op, n: usize) {
    do_mut(db, op, n)
}

fn do_mut(db: &mut VDb, op: &Op, n: usize) {
    crate::log::emit(op_json(op, n));
    let r = catch_unwind(AssertUnwindSafe(|| match op.op.as_str() {
        "set" => set_input(db, op.i as usize, op.f, op.v, op.d),
        "synth" => db.synthetic_write(dur(op.d)),
        "cell" => {
            // the untracked state changes only if the accompanying synthetic write went through (a panic in
            // the event callback while the writer waits leaves both the revision and the cell unchanged)
            db.synthetic_write(dur(op.d));
            db.cx.cells[op.k as usize - 1].store(op.v, Ordering::SeqCst);
        }
        "lru" => set_lru(db, op.k as usize),
        "evict" => db.trigger_lru_eviction(),
        o => panic!("unknown mut op {o}"),
    }));
    match r {
        Ok(()) => {
            ev!("e": "ret", "ok": 1, "kind": "", "msg": "", "v": 0, "s": 0, "hs": Vec::<String>::new(), "acc": Vec::<i64>::new())
        }
        Err(p) => end_panic(p),
    }
}

/// Runs a read operation; returns true if it ended in a cancellation (the handle must be given up).
pub fn do_read_op<'db>(db: &'db VDb, op: &Op, n: usize, held: &mut Vec<&'db Val>) -> bool {
    let before = LAST_CANCEL.with(|c| c.replace(false));
    let _ = before;
    do_read(db, op, n, held);
    LAST_CANCEL.with(|c| c.replace(false))
}

thread_local! {
    static LAST_CANCEL: std::cell::Cell<bool> = const { std::cell::Cell::new(false) };
}

fn do_read<'db>(db: &'db VDb, op: &Op, n: usize, held: &mut Vec<&'db Val>) {
    crate::log::emit(op_json(op, n));
    match op.op.as_str() {
        "get" => {
            let r = catch_unwind(AssertUnwindSafe(|| call_fn(db, op.f as usize)));
            match r {
                Ok(v) => {
                    ev!("e": "ret", "ok": 1, "kind": "", "msg": "", "v": v.v, "s": v.serial,
                        "hs": v.hs.iter().map(|i| idstr(*i)).collect::<Vec<_>>(), "acc": Vec::<i64>::new(), "ni": v.is.len());
                    held.push(v);
                    // field getters at top level: read back everything the result hands out
                    let rr = catch_unwind(AssertUnwindSafe(|| {
                        for (pos, id) in v.hs.iter().enumerate() {
                            let t = <T as salsa::plumbing::FromId>::from_id(*id);
                            ev!("e": "tfld", "pos": pos + 1, "id": idstr(*id), "ident": t.ident(db).0, "x": t.x(db).v, "y": t.y(db).v);
                        }
                        for (pos, (kind, id)) in v.is.iter().enumerate() {
                            ev!("e": "tint", "pos": pos + 1, "kind": *kind, "id": idstr(*id), "v": read_interned(db, *kind, *id));
                        }
                    }));
                    if let Err(p) = rr {
                        let (kind, msg) = classify(&p);
                        ev!("e": "tpanic", "kind": kind, "msg": msg);
                    }
                }
                Err(p) => end_panic(p),
            }
        }
        // struct-keyed function m on the k-th struct exported by creator f (creator fetched first)
        "gets" => {
            let r = catch_unwind(AssertUnwindSafe(|| {
                let c = call_fn(db, op.f as usize);
                ev!("e": "sub", "v": c.v, "s": c.serial, "hs": c.hs.iter().map(|i| idstr(*i)).collect::<Vec<_>>());
                let k = op.k as usize;
                if k == 0 || k > c.hs.len() {
                    return (c, None);
                }
                let id = c.hs[k - 1];
                ev!("e": "subkey", "sk": format!("s{}@{}", op.m, idstr(id)));
                (c, Some(call_sfn(db, op.m as usize, id)))
            }));
            match r {
                Ok((c, Some(v))) => {
                    ev!("e": "ret", "ok": 1, "kind": "", "msg": "", "v": v.v, "s": v.serial,
                        "hs": Vec::<String>::new(), "acc": Vec::<i64>::new());
                    held.push(c);
                    held.push(v);
                }
                Ok((c, None)) => {
                    ev!("e": "ret", "ok": 2, "kind": "skip", "msg": "", "v": -1, "s": 0,
                        "hs": Vec::<String>::new(), "acc": Vec::<i64>::new());
                    held.push(c);
                }
                Err(p) => end_panic(p),
            }
        }
        "mkin" | "mkint" => {
            let r = catch_unwind(AssertUnwindSafe(|| {
                if op.op == "mkin" {
                    make_inputs(db, op.k, op.v)
                } else {
                    make_interned(db, op.k, op.v)
                }
            }));
            match r {
                Ok(()) => {
                    ev!("e": "ret", "ok": 1, "kind": "", "msg": "", "v": 0, "s": 0, "hs": Vec::<String>::new(), "acc": Vec::<i64>::new())
                }
                Err(p) => end_panic(p),
            }
        }
        // arm a one-shot user panic at the next body execution of function f (no salsa interaction)
        "arm" => {
            crate::log::ARM_FN.store(op.f, Ordering::SeqCst);
            ev!("e": "ret", "ok": 1, "kind": "", "msg": "", "v": 0, "s": 0, "hs": Vec::<String>::new(), "acc": Vec::<i64>::new(), "ni": 0);
        }
        "accum" => {
            let r = catch_unwind(AssertUnwindSafe(|| accumulated(db, op.f as usize)));
            match r {
                Ok(a) => {
                    ev!("e": "ret", "ok": 1, "kind": "", "msg": "", "v": 0, "s": 0, "hs": Vec::<String>::new(), "acc": a)
                }
                Err(p) => end_panic(p),
            }
        }
        o => panic!("unknown read op {o}"),
    }
}
