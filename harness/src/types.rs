//! Programs-as-data: the JSON vocabulary shared by the generators (python), the drivers
//! (this crate) and the TLA+ specifications (`specs/core/Sem.tla`).
use serde::{Deserialize, Serialize};

/// One node of a body decision tree. All fields are always present so that the TLA+ side
/// can treat nodes as records of one shape.
#[derive(Clone, Debug, Serialize, Deserialize)]
pub struct Node {
    pub op: String,
    #[serde(default)]
    pub a: i64,
    #[serde(default)]
    pub b: i64,
    #[serde(default)]
    pub c: i64,
    #[serde(default)]
    pub kids: Vec<usize>, // 1-based indices into the same node array
}

#[derive(Clone, Debug, Serialize, Deserialize)]
pub struct FnDef {
    /// plain | noeq | lru | q0 | q2 | fix | fixjoin | fb | (struct fns) splain | sspec | (interned fns) iplain
    pub kind: String,
    /// cycle families: initial value (fix) / fallback value (fb)
    #[serde(default)]
    pub init: i64,
    /// forward: the result also exports the handles obtained from callees (not only own ones)
    #[serde(default)]
    pub fwd: i64,
    pub nodes: Vec<Node>,
}

#[derive(Clone, Debug, Serialize, Deserialize)]
pub struct Program {
    /// number of distinct values (results are 0..nv-1; bit-sets for cycle families)
    pub nv: i64,
    /// initial `[value, durability]` of field a and b of every `In` input
    pub inputs: Vec<Vec<[i64; 2]>>,
    /// initial values of untracked cells
    pub cells: Vec<i64>,
    /// Node-keyed functions (1-based index = abstract function key `f<j>`)
    pub fns: Vec<FnDef>,
    /// struct-keyed function families (index 1..=3: qs1, qs2 plain; qspec specify)
    #[serde(default)]
    pub sfns: Vec<FnDef>,
    /// interned-keyed function family (one body, keyed by an `I*` handle)
    #[serde(default)]
    pub ifns: Vec<FnDef>,
    #[serde(default)]
    pub lru_cap: i64,
}

#[derive(Clone, Debug, Serialize, Deserialize)]
pub struct Op {
    pub op: String,
    #[serde(default)]
    pub h: i64, // handle / thread the op runs on
    #[serde(default)]
    pub f: i64, // function index / field
    #[serde(default)]
    pub i: i64, // input index
    #[serde(default)]
    pub v: i64,
    #[serde(default)]
    pub d: i64, // durability (-1: keep)
    #[serde(default)]
    pub k: i64, // cell / slot / capacity
    #[serde(default)]
    pub m: i64, // struct fn family
}

/// One round of a parallel job: `pre` runs on the main handle, then every entry of `threads` runs on
/// its own clone concurrently; `writer` runs on the main handle *while* the readers are running
/// (it blocks until they have dropped their clones); `cancels` are local cancellations.
#[derive(Clone, Debug, Default, Serialize, Deserialize)]
pub struct Round {
    #[serde(default)]
    pub pre: Vec<Op>,
    #[serde(default)]
    pub threads: Vec<Vec<Op>>,
    #[serde(default)]
    pub writer: Vec<Op>,
    /// (thread index 1-based, number of trace lines of this round after which to cancel)
    #[serde(default)]
    pub cancels: Vec<[i64; 2]>,
    /// number of trace lines of this round after which the writer starts
    #[serde(default)]
    pub writer_after: i64,
}

#[derive(Clone, Debug, Serialize, Deserialize)]
pub struct Job {
    pub id: i64,
    pub prog: Program,
    pub hist: Vec<Op>,
    #[serde(default)]
    pub inject: i64, // 0 = none; k>0: panic at the k-th user callback
    #[serde(default)]
    pub seed: i64,
    #[serde(default)]
    pub mode: String,
    #[serde(default)]
    pub rounds: Vec<Round>,
    /// per-mille probability of a yield / short sleep at harness events (schedule jitter)
    #[serde(default)]
    pub jitter: i64,
}
