//! Parallel driver on real OS threads: rounds of concurrent readers on clones, optional concurrent
//! writer and local cancellations. Schedules are diversified by seeded jitter at harness events;
//! a watchdog turns a hang into data (`hang` event) instead of blocking the check.
use crate::ev;
use crate::items::*;
use crate::log::{CB_COUNT, INJECT_AT, JITTER};
use crate::seq::{classify, do_mut_op, do_read_op};
use crate::types::*;
use std::collections::HashMap;
use std::panic::{AssertUnwindSafe, catch_unwind};
use std::sync::atomic::Ordering;
use std::sync::mpsc;
use salsa::Database as _;
use std::sync::Mutex;
use std::time::Duration;

/// salsa thread number (as used in hook events) -> logical thread index of the job
pub static STID: Mutex<Option<HashMap<u64, i64>>> = Mutex::new(None);

pub fn logical(stid: u64) -> i64 {
    let g = STID.lock().unwrap_or_else(|e| e.into_inner());
    g.as_ref().and_then(|m| m.get(&stid).copied()).unwrap_or(-(stid as i64))
}

fn register_thread(t: i64) {
    crate::log::set_tid(t);
    #[cfg(feature = "hooks")]
    {
        let s = salsa::verif::current_tid();
        let mut g = STID.lock().unwrap_or_else(|e| e.into_inner());
        g.get_or_insert_with(HashMap::new).insert(s, t);
    }
}

pub fn run_job(job: &Job) -> bool {
    reset_globals();
    *STID.lock().unwrap_or_else(|e| e.into_inner()) = None;
    CB_COUNT.store(0, Ordering::SeqCst);
    INJECT_AT.store(0, Ordering::SeqCst);
    JITTER.store(job.jitter, Ordering::SeqCst);
    crate::log::LOG_WCC.store(if job.mode.contains("cancel") || job.mode.contains("write") { 1 } else { 0 }, Ordering::SeqCst);
    register_thread(0);
    ev!("e": "reset", "job": job.id, "prog": serde_json::to_value(&job.prog).unwrap(), "inject": job.inject, "mode": job.mode,
        "s0": crate::log::SERIAL.load(Ordering::SeqCst));
    let mut db = new_db(job.prog.clone());
    if job.prog.lru_cap != LRU_DECL as i64 && job.prog.lru_cap >= 0 {
        set_lru(&mut db, job.prog.lru_cap as usize);
    }
    INJECT_AT.store(job.inject, Ordering::SeqCst);
    let mut opn = 0usize;
    for (rn, round) in job.rounds.iter().enumerate() {
        ev!("e": "round", "n": rn + 1, "nthreads": round.threads.len());
        for op in &round.pre {
            if matches!(op.op.as_str(), "get" | "gets" | "accum") {
                let mut held = vec![];
                do_read_op(&db, op, opn, &mut held);
            } else {
                do_mut_op(&mut db, op, opn);
            }
            opn += 1;
        }
        if round.threads.is_empty() {
            continue;
        }
        let line0 = crate::log::lines();
        let (tx, rx) = mpsc::channel::<i64>();
        let mut handles = vec![];
        let mut tokens = vec![];
        for (ti, ops) in round.threads.iter().enumerate() {
            let t = ti as i64 + 1;
            let dbc = db.clone();
            tokens.push(dbc.cancellation_token());
            ev!("e": "clone", "h": t);
            let ops = ops.clone();
            let tx = tx.clone();
            let seed = (job.seed as u64).wrapping_mul(0x9E37_79B9).wrapping_add(((rn as u64) << 8) | t as u64);
            let base = opn + ti * 1000;
            handles.push(std::thread::spawn(move || {
                register_thread(t);
                crate::log::seed_thread_rng(seed);
                ev!("e": "tstart");
                let dbc = dbc;
                for (n, op) in ops.iter().enumerate() {
                    let mut held = vec![];
                    let cancelled = do_read_op(&dbc, op, base + n, &mut held);
                    if cancelled {
                        break;
                    }
                }
                ev!("e": "drop_begin", "h": t);
                let r = catch_unwind(AssertUnwindSafe(move || drop(dbc)));
                ev!("e": "drop_end", "h": t, "ok": r.is_ok());
                let _ = tx.send(t);
            }));
        }
        drop(tx);
        // local cancellations run on the main thread; the concurrent writer gets a thread of its own (it
        // blocks until every clone is gone), so that the watchdog below can still fire
        let mut cancels: Vec<[i64; 2]> = round.cancels.clone();
        cancels.sort_by_key(|c| c[1]);
        let n = round.threads.len();
        let writer_done = std::sync::atomic::AtomicBool::new(round.writer.is_empty());
        let writer_ops = round.writer.clone();
        let nwriter = writer_ops.len();
        let mut hang = false;
        let mut finished = 0usize;
        std::thread::scope(|sc| {
            let mut writer_started = round.writer.is_empty();
            let deadline = std::time::Instant::now() + Duration::from_secs(20);
            let mut dbm = Some(&mut db);
            let wd = &writer_done;
            while finished < n || !writer_done.load(Ordering::SeqCst) {
                let since = (crate::log::lines() - line0) as i64;
                while let Some(c) = cancels.first().copied() {
                    if since >= c[1] || finished == n {
                        cancels.remove(0);
                        if finished < n {
                            ev!("e": "cancel_begin", "h": c[0]);
                            tokens[c[0] as usize - 1].cancel();
                            ev!("e": "cancel_end", "h": c[0]);
                        }
                    } else {
                        break;
                    }
                }
                if !writer_started && (since >= round.writer_after || finished == n) {
                    writer_started = true;
                    let dbw = dbm.take().unwrap();
                    let ops = writer_ops.clone();
                    let base = opn;
                    sc.spawn(move || {
                        register_thread(0);
                        for (i, op) in ops.iter().enumerate() {
                            do_mut_op(dbw, op, base + i);
                        }
                        wd.store(true, Ordering::SeqCst);
                    });
                    continue;
                }
                if finished < n {
                    match rx.recv_timeout(Duration::from_millis(1)) {
                        Ok(_) => finished += 1,
                        Err(mpsc::RecvTimeoutError::Timeout) => {}
                        Err(mpsc::RecvTimeoutError::Disconnected) => finished = n,
                    }
                } else {
                    std::thread::sleep(Duration::from_millis(1));
                }
                if std::time::Instant::now() > deadline {
                    hang = true;
                    break;
                }
            }
            if hang {
                // threads are stuck inside salsa: the process cannot recover them; the trace so far is the data
                ev!("e": "hang", "finished": finished, "threads": n);
                crate::log::flush();
                crate::log::close();
                eprintln!("drive: hang in job {}", job.id);
                std::process::exit(0);
            }
        });
        opn += nwriter;
        if hang {
            ev!("e": "hang", "finished": finished, "threads": n);
            crate::log::flush();
            return false;
        }
        for h in handles {
            let _ = h.join();
        }
        opn += 1000 * n;
        ev!("e": "round_end", "n": rn + 1);
    }
    ev!("e": "dbdrop_begin");
    drop(db);
    ev!("e": "dbdrop_end", "cbs": CB_COUNT.load(Ordering::SeqCst), "s1": crate::log::SERIAL.load(Ordering::SeqCst));
    let _ = classify;
    true
}
