"""Exhaustive TLC run of the fixpoint-iteration spec (specs/cycle/Fixpoint.tla) and replay of every
behaviour it generates (program x order of requests) on real salsa: values must agree (C12, decided by
the trace monitor against Sem.Lfp) and the sequence of body executions is compared with the model's
(drift: reported, not a property violation)."""
import json
import os
import random
import re

from common import *
import seqcheck

FIX_SPEC = os.path.join(SPECS, "cycle", "MC_Fixpoint.tla")
FIX_CFG = {"quick": dict(NF=3, MaxReq=2), "thorough": dict(NF=3, MaxReq=3)}
INVARIANTS = ["NoBad", "FinalIsLfp", "ProvBelowLfp"]


def mask(s):
    return sum(1 << (i - 1) for i in s)


def chain(steps):
    nodes = []
    for n, st in enumerate(steps):
        if st[0] == "orc":
            nodes.append({"op": "orc", "a": st[1], "b": 0, "c": 0, "kids": [n + 2]})
        else:
            nodes.append({"op": "orcall", "a": st[1], "b": st[2], "c": 0, "kids": [n + 2]})
    nodes.append({"op": "retr", "a": 0, "b": 0, "c": 0, "kids": []})
    return nodes


def program(calls):
    nf = len(calls)
    full = (1 << nf) - 1
    fns = []
    for j, cl in enumerate(calls, 1):
        steps = [("orc", 1 << (j - 1))] + [("orcall", g, full) for g in cl]
        fns.append({"kind": "fix", "init": 0, "fwd": 0, "nodes": chain(steps)})
    return {"nv": full + 1, "inputs": [[[0, 0], [0, 0]]], "cells": [], "fns": fns, "sfns": [], "ifns": [], "lru_cap": 2}


def run_fixmc(tier, wd, timeout=3000):
    consts = FIX_CFG[tier]
    cfgp = os.path.join(wd, "MC_Fixpoint_emit.cfg")
    with open(cfgp, "w") as f:
        f.write("SPECIFICATION Spec\nCONSTANTS\n")
        for k, v in consts.items():
            f.write(f"  {k} = {v}\n")
        f.write("  Emit = TRUE\n  Mut = \"none\"\n  defaultInitValue = 0\nINVARIANTS " + " ".join(INVARIANTS) + "\nCHECK_DEADLOCK FALSE\n")
    twd = os.path.join(wd, "mc_fixpoint")
    os.makedirs(twd, exist_ok=True)
    res = run_tlc(FIX_SPEC, cfgp, twd, workers=16, timeout=timeout, heap="12g", deque=False)
    out = res["out"]
    if res["rc"] != 0 or "No error has been found" not in out:
        tail = "\n".join(l for l in out.splitlines() if not l.startswith(("Parsing", "Semantic", "Linting", '"REPLAY')))[-4000:]
        log(tail)
        raise ToolError(f"Fixpoint model self-check failed or did not finish (rc={res['rc']})")
    replays = []
    for m in re.finditer(r'^"?REPLAY\|(.*?)"?$', out, re.M):
        s = m.group(1).replace('\\"', '"')
        try:
            replays.append(json.loads(s))
        except Exception:
            pass
    return {"consts": consts, "generated": res.get("generated", 0), "distinct": res.get("distinct", 0),
            "depth": res.get("depth", 0), "replays": replays, "wall_s": res["wall_s"]}


def replay_jobs(mc, limit, seed):
    reps = mc["replays"]
    rng = random.Random(seed)
    if limit and len(reps) > limit:
        reps = rng.sample(reps, limit)
    jobs = []
    for n, r in enumerate(reps):
        hist = [{"op": "get", "f": o["f"], "i": 0, "v": 0, "d": -1, "k": 0} for o in r["h"]]
        pred = [{"v": mask(o["v"]), "ex": o["ex"]} for o in r["h"]]
        jobs.append({"id": n + 1, "prog": program(r["calls"]), "hist": hist, "inject": 0, "seed": seed, "mode": "mc-fix", "pred": pred})
    return jobs


def compare(jobs, trace_path):
    drift, wrong = [], []
    byid = {j["id"]: j for j in jobs}
    cur, opn, ex, checked = None, -1, [], 0
    with open(trace_path) as f:
        for line in f:
            e = json.loads(line)
            k = e.get("e")
            if k == "reset":
                cur, opn = byid.get(e["job"]), -1
            elif k == "op":
                opn, ex = e["n"] - 1, []
            elif k == "bs":
                ex.append(e["kj"])          # one per body execution (first execution and every iteration)
            elif k == "ret" and cur is not None and 0 <= opn < len(cur["pred"]) and cur["pred"][opn] is not None:
                p = cur["pred"][opn]
                checked += 1
                res = "ok" if e.get("ok") == 1 else {"inject": "user", "cancel_pp": "pp"}.get(e.get("kind"), e.get("kind"))
                if res != p.get("res", "ok") or (res == "ok" and e.get("v") != p["v"]):
                    wrong.append({"job": cur["id"], "op": opn + 1, "model": p, "impl": {"v": e.get("v"), "ok": e.get("ok"), "res": res}})
                elif ex != p["ex"]:
                    drift.append({"job": cur["id"], "op": opn + 1, "model": p["ex"], "impl": ex})
    return checked, wrong, drift


# ---------------------------------------------------------------------------------------------------
# FixRev: the same engine across revisions (one boolean input gating calls, writes between requests)
REV_SPEC = os.path.join(SPECS, "cycle", "MC_FixRev.tla")
# exhaustive configurations, and simulated ones (random behaviours of a larger instance: `sim` traces per worker)
REV_CFG = {"quick": [dict(NF=2, MaxOps=4, MaxWrites=2, Progs="AllProgs"),
                     dict(NF=3, MaxOps=5, MaxWrites=2, Progs="AllProgs", sim=120)],
           "thorough": [dict(NF=2, MaxOps=5, MaxWrites=3, Progs="AllProgs"),
                        dict(NF=3, MaxOps=2, MaxWrites=1, Progs="Progs1"),
                        dict(NF=3, MaxOps=6, MaxWrites=3, Progs="AllProgs", sim=2500)],
           "try3": [dict(NF=3, MaxOps=2, MaxWrites=1, Progs="Progs1")],
           "tryp": [dict(NF=2, MaxOps=5, MaxWrites=1, MaxPanics=1, Progs="AllProgs")]}
REV_INVARIANTS = ["NoBad", "FinalIsLfp", "LocksQuiescent"]


def program_rev(calls, gate, inp0, kind="fix"):
    nf = len(calls)
    full = (1 << nf) - 1
    fns = []
    for j, cl in enumerate(calls, 1):
        steps = [("orc", 1 << (j - 1))]
        for i, g in enumerate(cl, 1):
            steps.append(("cond", 1, 1, g, full) if gate[j - 1] == i else ("orcall", g, full))
        fns.append({"kind": kind, "init": 0, "fwd": 0, "nodes": chain_rev(steps)})
    return {"nv": full + 1, "inputs": [[[inp0, 0], [0, 0]]], "cells": [], "fns": fns, "sfns": [], "ifns": [], "lru_cap": 2}


def chain_rev(steps):
    """orc / orcall / cond (read input 1.1; call only when it is 1) chains ending in retr (node indices are 1-based)."""
    nodes = []
    for st in steps:
        n = len(nodes) + 1
        if st[0] == "orc":
            nodes.append({"op": "orc", "a": st[1], "b": 0, "c": 0, "kids": [n + 1]})
        elif st[0] == "orcall":
            nodes.append({"op": "orcall", "a": st[1], "b": st[2], "c": 0, "kids": [n + 1]})
        else:
            # in node: value 0 -> after the call, 1 -> the call
            nodes.append({"op": "in", "a": st[1], "b": st[2], "c": 0, "kids": [n + 2, n + 1]})
            nodes.append({"op": "orcall", "a": st[3], "b": st[4], "c": 0, "kids": [n + 2]})
    nodes.append({"op": "retr", "a": 0, "b": 0, "c": 0, "kids": []})
    return nodes


REV_FB_CFG = {"quick": [dict(NF=2, MaxOps=4, MaxWrites=2, Progs="AllProgs"),
                        dict(NF=3, MaxOps=5, MaxWrites=2, Progs="AllProgs", sim=120)],
              "thorough": [dict(NF=2, MaxOps=5, MaxWrites=3, Progs="AllProgs"),
                           dict(NF=3, MaxOps=6, MaxWrites=3, Progs="AllProgs", sim=2500)]}


# user panics armed at body starts: unwinding, poisoned memos, propagated panics, recovery in later revisions
REV_PANIC_CFG = {"quick": [dict(NF=2, MaxOps=4, MaxWrites=1, MaxPanics=1, Progs="AllProgs"),
                           dict(NF=3, MaxOps=6, MaxWrites=2, MaxPanics=2, Progs="AllProgs", sim=120)],
                 "thorough": [dict(NF=2, MaxOps=5, MaxWrites=1, MaxPanics=1, Progs="AllProgs"),
                              dict(NF=3, MaxOps=7, MaxWrites=3, MaxPanics=2, Progs="AllProgs", sim=2500)]}


def run_fixrev(tier, wd, timeout=3000, fb=False, panics=False):
    out_all = {"consts": [], "generated": 0, "distinct": 0, "depth": 0, "replays": [], "wall_s": 0.0}
    for n, consts in enumerate((REV_PANIC_CFG if panics else REV_FB_CFG if fb else REV_CFG)[tier]):
        cfgp = os.path.join(wd, f"MC_FixRev{'Fb' if fb else ''}{'Panic' if panics else ''}_emit{n}.cfg")
        sim = consts.get("sim")
        with open(cfgp, "w") as f:
            f.write("SPECIFICATION Spec\nCONSTANTS\n")
            if "MaxPanics" not in consts:
                f.write("  MaxPanics = 0\n")
            for k, v in consts.items():
                if k == "sim":
                    continue
                f.write(f"  {k} <- {v}\n" if k == "Progs" else f"  {k} = {v}\n")
            f.write(f"  Emit = TRUE\n  Mut = \"none\"\n  Fb = {'TRUE' if fb else 'FALSE'}\n  defaultInitValue = 0\nINVARIANTS "
                    + " ".join(["NoBadFb", "LocksQuiescent"] if fb else REV_INVARIANTS) + "\nCHECK_DEADLOCK FALSE\n")
        twd = os.path.join(wd, f"mc_fixrev{'fb' if fb else ''}{'panic' if panics else ''}{n}")
        os.makedirs(twd, exist_ok=True)
        res = run_tlc(REV_SPEC, cfgp, twd, workers=8 if sim else 16, timeout=timeout, heap="12g", deque=False,
                      simulate=f"num={sim}" if sim else None, extra=["-depth", "600"] if sim else None)
        out = res["out"]
        ok = ("No error has been found" in out) if not sim else ("Finished in" in out and "Error:" not in out and "is violated" not in out)
        if res["rc"] != 0 or not ok:
            tail = "\n".join(l for l in out.splitlines() if not l.startswith(("Parsing", "Semantic", "Linting", '"REPLAY')))[-4000:]
            log(tail)
            raise ToolError(f"FixRev model self-check failed or did not finish (rc={res['rc']})")
        if sim:
            m = re.search(r"The number of states generated: (\d+)", out)
            res["generated"] = res["distinct"] = int(m.group(1)) if m else 0
        for m in re.finditer(r'^"?REPLAY\|(.*?)"?$', out, re.M):
            try:
                rp = json.loads(m.group(1).replace('\\"', '"'))
                rp["sim"] = bool(sim)
                out_all["replays"].append(rp)
            except Exception:
                pass
        out_all["consts"].append(consts)
        out_all["generated"] += res.get("generated", 0)
        out_all["distinct"] += res.get("distinct", 0)
        out_all["depth"] = max(out_all["depth"], res.get("depth", 0))
        out_all["wall_s"] += res["wall_s"]
    return out_all


def replay_jobs_rev(mc, limit, seed, kind="fix"):
    # every simulated behaviour of the larger instances, and a sample of the exhaustively generated ones
    rng = random.Random(seed)
    sims = [r for r in mc["replays"] if r.get("sim")]
    reps = [r for r in mc["replays"] if not r.get("sim")]
    if limit and len(sims) + len(reps) > limit:
        reps = rng.sample(reps, max(0, min(len(reps), limit - len(sims))))
    reps = sims + reps
    jobs = []
    for n, r in enumerate(reps):
        hist, pred = [], []
        armed = False
        cur = r["inp0"]
        for o in r["h"]:
            if o["op"] == "get":
                hist.append({"op": "get", "f": o["f"], "i": 0, "v": 0, "d": -1, "k": 0})
                pred.append({"v": mask(o["v"]), "ex": o["ex"], "res": o.get("res", "ok")})
            elif o["op"] == "arm":
                hist.append({"op": "arm", "f": o["f"], "i": 0, "v": 0, "d": -1, "k": 0})
                pred.append(None)
                armed = True
            else:
                cur = 1 - cur
                hist.append({"op": "set", "f": 1, "i": 1, "v": cur, "d": -1, "k": 0})
                pred.append(None)
        # (inject = a callback count that is never reached: the monitor judges the run as one with injected panics)
        jobs.append({"id": n + 1, "prog": program_rev(r["calls"], r["gate"], r["inp0"], kind), "hist": hist,
                     "inject": 1000000 if armed else 0, "seed": seed, "mode": "fault-fix" if armed else "mc-fix", "pred": pred})
    return jobs
