"""Exhaustive TLC run of the fixpoint-iteration spec (specs/cycle/Fixpoint.tla) and replay of every
behaviour it generates (program x order of requests) on real salsa: values must agree (C12, decided by
the trace monitor against Sem.Lfp) and the sequence of body executions is compared with the model's
(drift: reported, not a property violation)."""
import json
import os
import random
import re

from common import *
import seqcheck

FIX_SPEC = os.path.join(SPECS, "cycle", "MC_Fixpoint.tla")
FIX_CFG = {"quick": dict(NF=3, MaxReq=2), "thorough": dict(NF=3, MaxReq=3)}
INVARIANTS = ["NoBad", "FinalIsLfp", "ProvBelowLfp"]


def mask(s):
    return sum(1 << (i - 1) for i in s)


def chain(steps):
    nodes = []
    for n, st in enumerate(steps):
        if st[0] == "orc":
            nodes.append({"op": "orc", "a": st[1], "b": 0, "c": 0, "kids": [n + 2]})
        else:
            nodes.append({"op": "orcall", "a": st[1], "b": st[2], "c": 0, "kids": [n + 2]})
    nodes.append({"op": "retr", "a": 0, "b": 0, "c": 0, "kids": []})
    return nodes


def program(calls):
    nf = len(calls)
    full = (1 << nf) - 1
    fns = []
    for j, cl in enumerate(calls, 1):
        steps = [("orc", 1 << (j - 1))] + [("orcall", g, full) for g in cl]
        fns.append({"kind": "fix", "init": 0, "fwd": 0, "nodes": chain(steps)})
    return {"nv": full + 1, "inputs": [[[0, 0], [0, 0]]], "cells": [], "fns": fns, "sfns": [], "ifns": [], "lru_cap": 2}


def run_fixmc(tier, wd, timeout=3000):
    consts = FIX_CFG[tier]
    cfgp = os.path.join(wd, "MC_Fixpoint_emit.cfg")
    with open(cfgp, "w") as f:
        f.write("SPECIFICATION Spec\nCONSTANTS\n")
        for k, v in consts.items():
            f.write(f"  {k} = {v}\n")
        f.write("  Emit = TRUE\n  Mut = \"none\"\n  defaultInitValue = 0\nINVARIANTS " + " ".join(INVARIANTS) + "\nCHECK_DEADLOCK FALSE\n")
    twd = os.path.join(wd, "mc_fixpoint")
    os.makedirs(twd, exist_ok=True)
    res = run_tlc(FIX_SPEC, cfgp, twd, workers=16, timeout=timeout, heap="12g", deque=False)
    out = res["out"]
    if res["rc"] != 0 or "No error has been found" not in out:
        tail = "\n".join(l for l in out.splitlines() if not l.startswith(("Parsing", "Semantic", "Linting", '"REPLAY')))[-4000:]
        log(tail)
        raise ToolError(f"Fixpoint model self-check failed or did not finish (rc={res['rc']})")
    replays = []
    for m in re.finditer(r'^"?REPLAY\|(.*?)"?$', out, re.M):
        s = m.group(1).replace('\\"', '"')
        try:
            replays.append(json.loads(s))
        except Exception:
            pass
    return {"consts": consts, "generated": res.get("generated", 0), "distinct": res.get("distinct", 0),
            "depth": res.get("depth", 0), "replays": replays, "wall_s": res["wall_s"]}


def replay_jobs(mc, limit, seed):
    reps = mc["replays"]
    rng = random.Random(seed)
    if limit and len(reps) > limit:
        reps = rng.sample(reps, limit)
    jobs = []
    for n, r in enumerate(reps):
        hist = [{"op": "get", "f": o["f"], "i": 0, "v": 0, "d": -1, "k": 0} for o in r["h"]]
        pred = [{"v": mask(o["v"]), "ex": o["ex"]} for o in r["h"]]
        jobs.append({"id": n + 1, "prog": program(r["calls"]), "hist": hist, "inject": 0, "seed": seed, "mode": "mc-fix", "pred": pred})
    return jobs


def compare(jobs, trace_path):
    drift, wrong = [], []
    byid = {j["id"]: j for j in jobs}
    cur, opn, ex, checked = None, -1, [], 0
    with open(trace_path) as f:
        for line in f:
            e = json.loads(line)
            k = e.get("e")
            if k == "reset":
                cur, opn = byid.get(e["job"]), -1
            elif k == "op":
                opn, ex = e["n"] - 1, []
            elif k == "bs":
                ex.append(e["kj"])          # one per body execution (first execution and every iteration)
            elif k == "ret" and cur is not None and 0 <= opn < len(cur["pred"]):
                p = cur["pred"][opn]
                checked += 1
                if e.get("ok") != 1 or e.get("v") != p["v"]:
                    wrong.append({"job": cur["id"], "op": opn + 1, "model": p, "impl": {"v": e.get("v"), "ok": e.get("ok")}})
                elif ex != p["ex"]:
                    drift.append({"job": cur["id"], "op": opn + 1, "model": p["ex"], "impl": ex})
    return checked, wrong, drift
