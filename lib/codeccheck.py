"""C25: TLC enumerates stored-origin cases from specs/codec/EdgeCodec.tla (with the specification's prediction),
the harness replays each on the real codec through hook H3."""
import json
import os
import re
import time

from common import *

SPEC = os.path.join(SPECS, "codec", "EdgeCodec.tla")


def gen_cases(cfgname, wd, consts):
    cfgp = os.path.join(wd, cfgname + ".cfg")
    with open(cfgp, "w") as f:
        f.write("SPECIFICATION Spec\nCONSTANTS\n")
        for k, v in consts.items():
            f.write(f"  {k} = {v}\n")
        f.write("INVARIANTS Partition PackedOnlyInputs Emit\nCHECK_DEADLOCK FALSE\n")
    twd = os.path.join(wd, "tlc_" + cfgname)
    os.makedirs(twd, exist_ok=True)
    res = run_tlc(SPEC, cfgp, twd, workers=8, timeout=1800, heap="8g", deque=False)
    if res["rc"] != 0 or "No error has been found" not in res["out"]:
        log(res["out"][-3000:])
        raise ToolError("EdgeCodec model run failed")
    cases = []
    for m in re.finditer(r'^"CASE\|(.*)"$', res["out"], re.M):
        cases.append(m.group(1).replace('\\"', '"'))
    return cases, res


def run(pid, tier, seed, replay):
    t0 = time.time()
    wd = workdir(f"{pid}-{tier}")
    if tier == "thorough":
        configs = [("full2", dict(MaxLen=2, Small=0)), ("small5", dict(MaxLen=5, Small=1))]
    else:
        configs = [("full1", dict(MaxLen=1, Small=0)), ("mid2", dict(MaxLen=2, Small=2)), ("small3", dict(MaxLen=3, Small=1))]
    all_cases = []
    states = trans = 0
    models = []
    if replay:
        all_cases = [json.dumps(c) for c in json.load(open(replay))["cases"]]
    else:
        for name, consts in configs:
            cases, res = gen_cases(name, wd, consts)
            all_cases += cases
            states += res.get("distinct", 0)
            trans += res.get("generated", 0)
            models.append({"spec": "specs/codec/EdgeCodec.tla", "constants": consts, "cases": len(cases),
                           "distinct_states": res.get("distinct", 0), "wall_s": round(res["wall_s"], 1)})
            log(f"[{pid}] EdgeCodec {name}: {len(cases)} cases ({res['wall_s']:.0f}s)")
    cp = os.path.join(wd, "cases.ndjson")
    with open(cp, "w") as f:
        f.write("\n".join(all_cases) + "\n")
    viols, drifts, total = [], [], 0
    variants = ["default", "persist"]
    for variant in variants:
        binary, bt = build_harness(variant)
        op = os.path.join(wd, f"out_{variant}.ndjson")
        run_driver(binary, "codec", cp, op)
        for line in open(op):
            r = json.loads(line)
            if "summary" in r:
                total += r["summary"]["cases"]
                continue
            data_why = [w for w in r["why"] if not w.startswith("layout")]
            if data_why:
                viols.append({"variant": variant, "case": r["case"], "why": data_why})
            else:
                drifts.append({"variant": variant, "case": r["case"], "why": r["why"]})
    if drifts:
        log(f"DRIFT: {len(drifts)} cases where the chosen layout (packed / wide) differs from the specification's; the data round-trips. e.g. {json.dumps(drifts[0])[:300]}")
    samples = [json.loads(c) for c in all_cases[1:4]] if len(all_cases) > 4 else [json.loads(c) for c in all_cases[:1]]
    coverage = {"states": max(states, 1), "transitions": max(trans, 1), "traces_validated_against_impl": total,
                "samples": samples, "mc_models": models, "cases_generated_by_tlc": len(all_cases),
                "replayed_on_builds": variants, "layout_drift": len(drifts), "exhaustive": True,
                "evaluations": total, "distinct_nontrivial": len(set(all_cases)),
                "rule": "edge sequences over boundary classes of (ingredient, index, generation) x {input, output} x {derived, untracked} x 8 "
                        "extra-data combinations: quick = length<=1 over all classes, length<=2 over extremes+boundary, length<=3 over the packing "
                        "boundary; thorough = length<=2 over all classes and length<=5 over the boundary; each case replayed on the default build "
                        "(incl. clear_edges) and the persistence build (incl. serde round trip)"}
    write_evidence(pid, tier, seed, "model_checking", coverage, time.time() - t0, len(viols),
                   ["TLC enumerates the cases and predicts the outcome over boundary classes; the harness maps classes to the real bit patterns",
                    "hook H3 (salsa::verif::codec) exposes the private codec without changing it"])
    if viols:
        os.makedirs(os.path.join(WORK, "replay"), exist_ok=True)
        path = os.path.join(WORK, "replay", f"{pid}-codec-s{seed}.json")
        json.dump({"property": pid, "cases": [json.loads(v["case"]) for v in viols[:50] if v["case"].startswith("{")], "violations": viols[:50]},
                  open(path, "w"), indent=1)
        log(f"VIOLATION property={pid} replay={path}")
        log(f"  detail: {json.dumps(viols[0])[:400]}")
        return 1
    log(f"[{pid}] ok: {len(all_cases)} TLC-generated cases replayed on {len(variants)} builds ({total} evaluations), {time.time() - t0:.1f}s")
    return 0
