"""Exhaustive TLC run of the interner spec (specs/intern/Intern.tla) and replay of every behaviour it generates on
real salsa: the client functions' executions and the exact handles (slot, generation) of the interned values are
compared with the model's (one shard: all values have the same 1-bit hash)."""
import json
import os
import random
import re

from common import *

SPEC = os.path.join(SPECS, "intern", "Intern.tla")
CFG = {"quick": [dict(NQ=2, REVS=1, MaxOps=5, MaxWrites=3, Vals="{0, 2}"), dict(NQ=2, REVS=2, MaxOps=5, MaxWrites=4, Vals="{0, 2}")],
       "thorough": [dict(NQ=2, REVS=1, MaxOps=6, MaxWrites=4), dict(NQ=2, REVS=2, MaxOps=7, MaxWrites=5, Vals="{0, 2}"),
                    dict(NQ=3, REVS=1, MaxOps=5, MaxWrites=3, Vals="{0, 2}")]}
INVARIANTS = ["NoBad", "Canonical", "HandleValid", "LruExact", "EmitInv"]


def run_mc(tier, wd, timeout=3000):
    out_all = {"consts": [], "generated": 0, "distinct": 0, "depth": 0, "replays": [], "wall_s": 0.0}
    for n, consts in enumerate(CFG[tier]):
        cfgp = os.path.join(wd, f"Intern_emit{n}.cfg")
        c = dict(Vals="{0, 2, 4}")
        c.update(consts)
        with open(cfgp, "w") as f:
            f.write("SPECIFICATION Spec\nCONSTANTS\n")
            for k, v in c.items():
                f.write(f"  {k} = {v}\n")
            f.write("  Emit = TRUE\n  Mut = \"none\"\nINVARIANTS " + " ".join(INVARIANTS) + "\nCHECK_DEADLOCK FALSE\n")
        twd = os.path.join(wd, f"mc_intern{n}")
        os.makedirs(twd, exist_ok=True)
        res = run_tlc(SPEC, cfgp, twd, workers=16, timeout=timeout, heap="12g", deque=False)
        out = res["out"]
        if res["rc"] != 0 or "No error has been found" not in out:
            tail = "\n".join(l for l in out.splitlines() if not l.startswith(("Parsing", "Semantic", "Linting", '"REPLAY')))[-4000:]
            log(tail)
            raise ToolError(f"Intern model self-check failed or did not finish (rc={res['rc']})")
        for m in re.finditer(r'^"?REPLAY\|(.*?)"?$', out, re.M):
            try:
                rp = json.loads(m.group(1).replace('\\"', '"'))
                rp["revs"] = c["REVS"]
                out_all["replays"].append(rp)
            except Exception:
                pass
        out_all["consts"].append(c)
        out_all["generated"] += res.get("generated", 0)
        out_all["distinct"] += res.get("distinct", 0)
        out_all["depth"] = max(out_all["depth"], res.get("depth", 0))
        out_all["wall_s"] += res["wall_s"]
    return out_all


def nd(op, a=0, b=0, c=0, kids=None):
    return {"op": op, "a": a, "b": b, "c": c, "kids": kids or []}


def program(prog, in0, revs):
    fns = []
    for p in prog:
        fns.append({"kind": "plain", "init": 0, "fwd": 0,
                    "nodes": [nd("in", 1, p["fld"], 0, [2, 3]), nd("intern", revs, p["v0"], 0, [4]),
                              nd("intern", revs, p["v1"], 0, [4]), nd("ret", 0)]})
    sf = {"kind": "splain", "init": 0, "nodes": [nd("ret", 0)]}
    return {"nv": 2, "inputs": [[[in0[0], 0], [in0[1], 2]]], "cells": [], "fns": fns, "sfns": [sf, sf, dict(sf, kind="sspec")],
            "ifns": [{"kind": "iplain", "init": 0, "nodes": [nd("ret", 0)]}], "lru_cap": 2}


def replay_jobs(mc, limit, seed):
    reps = mc["replays"]
    rng = random.Random(seed)
    if limit and len(reps) > limit:
        reps = rng.sample(reps, limit)
    jobs = []
    for n, r in enumerate(reps):
        hist, pred = [], []
        for o in r["h"]:
            if o["op"] == "get":
                hist.append({"op": "get", "f": o["f"], "i": 0, "v": 0, "d": -1, "k": 0})
                pred.append({"ex": bool(o["ex"]), "s": o["s"], "g": o["g"], "v": o["v"]})
            else:
                hist.append({"op": "set", "i": 1, "f": o["f"], "v": o["v"], "d": -1, "k": 0})
                pred.append(None)
        jobs.append({"id": n + 1, "prog": program(r["prog"], r["in0"], r["revs"]), "hist": hist, "inject": 0, "seed": seed,
                     "mode": "mc-intern", "pred": pred})
    return jobs


def compare(jobs, trace_path):
    """Model-predicted (executed?, slot, generation, value) per request vs. the implementation's."""
    mism = []
    byid = {j["id"]: j for j in jobs}
    cur, opn, ex, base, checked, tint = None, -1, False, None, 0, None
    with open(trace_path) as f:
        for line in f:
            e = json.loads(line)
            k = e.get("e")
            if k == "reset":
                cur, opn, base = byid.get(e["job"]), -1, None
            elif k == "op":
                opn, ex, tint = e["n"] - 1, False, None
            elif k == "we":
                ex = True
            elif k == "int":
                if base is None:
                    base = e["ix"]
            elif k == "tint" and cur is not None and 0 <= opn < len(cur["pred"]) and cur["pred"][opn] is not None:
                p = cur["pred"][opn]
                checked += 1
                ix, gn = e["id"].split(".")
                got = {"ex": ex, "s": int(ix) - (base if base is not None else int(ix)) + 1, "g": int(gn), "v": e.get("v")}
                if got != p:
                    mism.append({"job": cur["id"], "op": opn + 1, "model": p, "impl": got})
    return checked, mism
