"""Property registry and the generic check procedure."""
import json
import re
import os
import time
from concurrent.futures import ThreadPoolExecutor

from common import *
import seqcheck
import mccheck
import meta
import findings
import parcheck
import protomc
import fixmc
import internmc

# ---------------------------------------------------------------------------------------
# sequential-engine properties (monitor: specs/core/CoreTrace.tla)

SEQ = {
    "C01": dict(mc=["core", "dur", "untracked", "lru"], families=["core", "dur", "untracked", "lru", "struct", "structdur", "intern", "churn", "reclaim", "mixed"],
                needs=["op:set", "dv", "we"],
                rule="random programs (decision-tree bodies over inputs, cells, calls, structs, interning) x random "
                     "histories; non-trivial = the history has a write, a validated reuse and an execution"),
    "C02": dict(mc=["dur"], families=["dur", "structdur"], needs=["op:set", "dv", "we"],
                rule="durability family: writes with keep/LOW/MEDIUM/HIGH/NEVER, synthetic writes of every durability; "
                     "non-trivial = a write, a validated reuse and an execution in one history"),
    "C03": dict(mc=["core", "dur", "untracked", "lru"], families=["core", "dur", "untracked", "lru", "struct", "mixed"], needs=["op:set", "dv", "we", "eq"],
                rule="non-trivial = history with a write, a reuse, a re-execution and a backdating comparison"),
    "C04": dict(mc=["untracked"], families=["untracked", "mixed"], scale=3, needs=["op:cell", "we", "dv"],
                rule="untracked family: cells read with report_untracked_read, changed together with synthetic writes; "
                     "non-trivial = a cell change, an execution and a reuse"),
    "C05": dict(mc=["lru"], families=["lru"], needs=["op:get", "drop", "we"],
                rule="lru family: capacity 0..3 changed at run time, explicit eviction; non-trivial = values were "
                     "dropped and functions executed"),
    "C06": dict(families=["struct", "structlru", "structcoll", "mixed"], needs=["new", "we", "op:set"],
                rule="struct family; non-trivial = structs created and a write"),
    "C07": dict(families=["churn", "reclaim", "struct", "structcoll", "intern", "mixed"], needs=["new", "int", "op:set"],
                rule="churn family (conditional struct creation, interned revisions=1..3 with a coarse hash so that slots "
                     "are shared, long write-heavy histories); non-trivial = structs and interned values created and writes"),
    "C08": dict(families=["intern", "churn", "reclaim", "mixed"], par=["parintern"], internmc=True, needs=["int", "op:set"],
                rule="interning from several queries over a small value domain across revisions; non-trivial = interning "
                     "and a write in one history"),
    "C09": dict(families=["churn", "reclaim", "intern"], internmc=True, needs=["int", "irec", "op:set"],
                rule="interned types with revisions=1,2,3,MAX; non-trivial = interning, an active-revision record and a write"),
    "C10": dict(families=["spec", "mixed"], needs=["spec", "new", "op:set"],
                rule="spec family: creators that specify / call the specifiable function in both orders; "
                     "non-trivial = a specify, a struct creation and a write"),
    "C11": dict(families=["accum", "accchain", "accumlru"], scale=2, needs=["op:accum", "accv", "op:set"],
                rule="accum family; non-trivial = accumulated() requested, values pushed and a write"),
    "C12": dict(families=["fix", "fixshape", "fixstruct"], fixmc=True, needs=["wic", "op:set"],
                rule="fix family: 1-4 mutually recursive functions with cycle_initial = bottom (0) over 3-bit sets, bodies are "
                     "unions of masked calls, input-controlled (conditionally formed, nested) cycles, default and joining "
                     "cycle_fn, plain consumers and leaves; every function requested as entry point; non-trivial = the "
                     "history iterated a cycle and wrote an input"),
    "C13": dict(families=["fb", "fbshape"], fixmc_fb=True, needs=["cres", "op:set"],
                rule="fb family: same shapes with cycle_result; non-trivial = a fallback was used and an input written"),
    "C14": dict(families=["pcycle", "pcyclefix"], par=["parpcycle"], needs=["panic:cycle", "op:set"],
                rule="pcycle family: plain functions whose backward calls are input-controlled; non-trivial = a cycle "
                     "panic occurred and an input was written"),
    "C15": dict(families=["diverge"], needs=["panic:iterlimit", "op:set"], scale=0.4,
                rule="diverge family: f = NOT f under an input switch, plus a convergent cycle and unrelated functions; "
                     "non-trivial = the iteration limit was hit and an input written"),
    "C26": dict(families=["persist", "persistshare"], scale=6, variant="persist", mode="persist", needs=["restored", "op:set", "dv"],
                rule="persist family (persistence build): persisted and non-persisted functions, histories with serialize -> drop -> "
                     "deserialize into a fresh database between writes; non-trivial = a restore, a write and a validated reuse"),
    "C23": dict(families=["core", "lru", "struct", "intern", "mixed", "churn", "reclaim"], needs=["drop", "retained"],
                adopt=r"was not interned in the latest revision|write lock taken; value leaked|access to field whilst the value is being initialized",
                rule="value lifetime discipline over all sequential families; non-trivial = values dropped and "
                     "references retained across a read phase; salsa's own guards against reading a slot that may be "
                     "reused under a live reference (debug assertion in interned data access, tracked-struct read lock) "
                     "count as violations when they fire on a read the history is entitled to"),
}

PAR = {
    "C16": dict(models=["syncproto"], par=["pardag", "parnest3", "parlru"], needs=["hk:sync_claim", "we", "tstart"],
                rule="pardag family: acyclic programs with shared sub-queries, 3 rounds (writes between rounds) of 2-4 real threads "
                     "on clones issuing 1-4 requests each, seeded schedule jitter; non-trivial = threads ran and functions executed"),
    "C17": dict(models=["syncproto"], par=["pardag", "parmemo"], monitors=("par",), needs=["hk:sync_claim", "we", "tstart"],
                rule="same runs as C16; every WillExecute is checked against the set of keys already executed in the revision"),
    "C18": dict(models=["syncproto", "syncxfer", "fixpoint"], par=["parfix", "parfb", "parnest3"], needs=["hk:sync_claim", "we", "tstart"],
                rule="fixpoint / fallback cycle programs entered concurrently at different members from 2-4 threads; parnest3: chains of "
                     "4-6 fixpoint functions with back edges entered by 3-4 threads at distinct members (nested cycles across threads)"),
    "C19": dict(models=["syncproto", "syncxfer"], par=["pardag", "parfix", "parfb", "parnest3", "parpcycle", "parwrite", "parcancel", "parpanic", "parpaniccancel", "parlru"], monitors=("par", "sync"), needs=["hk:sync_claim", "tstart"],
                rule="all parallel families; every protocol event (hook H1) is applied to the SyncOps protocol state and its guard "
                     "and the protocol invariants are evaluated; non-trivial = threads ran and claimed keys"),
    "C24": dict(models=["pagealloc"], par=["paralloc", "parstruct"], monitors=("par",), needs=["tstart", "new"],
                rule="paralloc family: 2-4 threads on clones create inputs (30-140 each, crossing the 128-slot pages), intern overlapping "
                     "ranges of immortal values outside queries and execute functions creating 150 tracked structs, over 3 rounds of "
                     "fresh clones; parstruct: random struct programs requested concurrently; every id is checked for distinctness, page/slot "
                     "order, single writer per page and read-back of its fields"),
    "C20": dict(models=["cancel"], par=["parwrite", "parwritefix", "parwritenest"], monitors=("par",), needs=["wproc", "tstart", "dscf"],
                rule="readers on clones while the main handle writes (input write / synthetic write / revision-preserving LRU capacity "
                     "change or eviction) at a seeded point; parwritenest: nested fixpoint cycles cancelled mid-iteration and "
                     "re-evaluated in the same revision"),
    "C21": dict(models=["cancel"], par=["parcancel", "parcancelfix", "parcancelnest", "parcancelacc"], monitors=("par",), needs=["cancel_begin", "tstart"],
                rule="local cancellation tokens cancelled at seeded points while 2-4 threads run requests (incl. fixpoint programs; "
                     "parcancelnest: plain consumers above nested fixpoint cycles that keep requesting after the cycle)"),
}

TIERS = {
    "quick": dict(njobs=150, nops=25),
    "thorough": dict(njobs=1500, nops=40),
}
# families that need long histories
NOPS_FACTOR = {"churn": 3, "reclaim": 2}
# template families that need many samples
JOBS_FACTOR = {"fixshape": 5, "fbshape": 3, "parmemo": 3, "paralloc": 0.5, "parpaniccancel": 3, "parcancelacc": 3}

ASSUME_SEQ = [
    "TLC evaluates specs/core/CoreTrace.tla + Sem.tla faithfully; the harness interpreter logs what it does",
    "schedules/histories on the implementation are sampled (seeded), not enumerated",
]


def known_match(known, pid, job, job_trace, detail=""):
    """A violation is a *known finding* only if the failing history matches a listed signature."""
    sig = findings.classify(pid, job, job_trace, detail)
    if sig is None:
        return None
    for f in known.get("findings", []):
        if f.get("property") == pid and f.get("signature") == sig:
            return f
    return None


def run_seq(pid, tier, seed, replay):
    t0 = time.time()
    cfg = SEQ[pid]
    binary, bt = build_harness(cfg.get("variant", "default"))
    log(f"[{pid}] harness built in {bt:.1f}s")
    wd = workdir(f"{pid}-{tier}")
    known = load_known()
    results = []
    mcinfo = None
    if replay:
        rp = json.load(open(replay))
        jobs = [rp["job"]] if "job" in rp else rp["jobs"]
        results.append(seqcheck.run_family(binary, rp.get("family", "replay"), seed, 0, 0, wd, jobs=jobs, mode=cfg.get("mode", "seq")))
    else:
        t = TIERS[tier]
        mcinfo = run_mc_part(pid, cfg, tier, seed, binary, wd, results)
        if cfg.get("fixmc"):
            mcinfo = run_fixmc_part(pid, tier, seed, binary, wd, results, mcinfo)
        if cfg.get("internmc"):
            mcinfo = run_intern_part(pid, tier, seed, binary, wd, results, mcinfo)
        if cfg.get("fixmc_fb"):
            mcinfo = run_fixrev_part(pid, tier, seed, binary, wd, results, mcinfo, fb=True)
        fams = cfg["families"]
        with ThreadPoolExecutor(max_workers=min(8, len(fams))) as ex:
            futs = [ex.submit(seqcheck.run_family, binary, fam, seed * 1000 + i,
                              max(10, int(t["njobs"] * cfg.get("scale", 1) * JOBS_FACTOR.get(fam, 1))), t["nops"] * NOPS_FACTOR.get(fam, 1), wd, None, cfg.get("mode", "seq"))
                    for i, fam in enumerate(fams)]
            results += [f.result() for f in futs]
        if cfg.get("par"):
            results += run_par_families(binary, cfg["par"], tier, seed, wd, ("par",))
    return finish(pid, tier, seed, results, cfg, known, wd, t0, mc=mcinfo)


def run_mc_part(pid, cfg, tier, seed, binary, wd, results):
    """Exhaustive TLC run of the generative spec + replay of its histories on the implementation."""
    fams = cfg.get("mc", [])
    if not fams:
        return None
    info = {"states": 0, "transitions": 0, "mc_models": [], "replayed_histories": 0, "replay_fetches_compared": 0,
            "drift": 0, "drift_samples": [], "exhaustive": True}
    limit = 5000 if tier == "quick" else 30000
    for fam in fams:
        mc = mccheck.run_mc(fam, tier, wd)
        jobs = mccheck.replay_jobs(mc, limit, seed)
        r = seqcheck.run_family(binary, "mc-" + fam, seed, 0, 0, wd, jobs=jobs)
        checked, drift = mccheck.compare_predictions(jobs, r["trace"])
        results.append(r)
        info["states"] += mc["distinct"]
        info["transitions"] += mc["generated"]
        info["mc_models"].append({"spec": "specs/core/CoreGen.tla", "family": fam, "constants": mc["consts"],
                                  "programs": len(mc["programs"]), "distinct_states": mc["distinct"],
                                  "states_generated": mc["generated"], "depth": mc["depth"],
                                  "invariants": mccheck.INVARIANTS, "leaf_histories_emitted": len(mc["replays"]),
                                  "replayed_on_impl": len(jobs), "wall_s": round(mc["wall_s"], 1)})
        info["replayed_histories"] += len(jobs)
        info["replay_fetches_compared"] += checked
        info["drift"] += len(drift)
        info["drift_samples"] += drift[:3]
        log(f"[{pid}] MC {fam}: {mc['distinct']} distinct states, {len(mc['replays'])} leaf histories, "
            f"{len(jobs)} replayed on salsa, {checked} fetches compared, drift={len(drift)} ({mc['wall_s']:.0f}s)")
    if info["drift"]:
        log(f"DRIFT: {info['drift']} fetches where salsa's (value, executed, validated) differ from the model's prediction; "
            f"no property predicate failed on them unless a VIOLATION line follows. e.g. {json.dumps(info['drift_samples'][:1])}")
    return info


def run_fixmc_part(pid, tier, seed, binary, wd, results, info):
    """Exhaustive TLC run of specs/cycle/Fixpoint.tla + replay of its behaviours on the implementation."""
    info = info or {"states": 0, "transitions": 0, "mc_models": [], "replayed_histories": 0, "replay_fetches_compared": 0,
                    "drift": 0, "drift_samples": [], "exhaustive": True}
    mc = fixmc.run_fixmc(tier, wd)
    jobs = fixmc.replay_jobs(mc, 4000 if tier == "quick" else 0, seed)
    r = seqcheck.run_family(binary, "mc-fix", seed, 0, 0, wd, jobs=jobs)
    checked, wrong, drift = fixmc.compare(jobs, r["trace"])
    results.append(r)
    info["states"] += mc["distinct"]
    info["transitions"] += mc["generated"]
    info["mc_models"].append({"spec": "specs/cycle/Fixpoint.tla", "family": "mc-fix", "constants": mc["consts"],
                              "programs": len({json.dumps(x["calls"]) for x in mc["replays"]}), "distinct_states": mc["distinct"],
                              "states_generated": mc["generated"], "depth": mc["depth"], "invariants": fixmc.INVARIANTS,
                              "leaf_histories_emitted": len(mc["replays"]), "replayed_on_impl": len(jobs),
                              "value_mismatches": len(wrong), "wall_s": round(mc["wall_s"], 1)})
    info["replayed_histories"] += len(jobs)
    info["replay_fetches_compared"] += checked
    info["drift"] += len(drift)
    info["drift_samples"] += drift[:3]
    log(f"[{pid}] MC fixpoint: {mc['distinct']} distinct states, {len(mc['replays'])} behaviours, {len(jobs)} replayed on salsa, "
        f"{checked} fetches compared, value mismatches={len(wrong)} (each is judged by the trace monitor), "
        f"execution-sequence drift={len(drift)} ({mc['wall_s']:.0f}s)")
    if drift:
        log(f"DRIFT: salsa's sequence of body executions differs from the Fixpoint model's in {len(drift)} fetches "
            f"(not a property violation by itself). e.g. {json.dumps(drift[:1])}")
    return run_fixrev_part(pid, tier, seed, binary, wd, results, info, fb=False)


def run_intern_part(pid, tier, seed, binary, wd, results, info):
    """Exhaustive TLC run of specs/intern/Intern.tla + replay of its behaviours on the implementation
    (executions and exact interned handles compared)."""
    info = info or {"states": 0, "transitions": 0, "mc_models": [], "replayed_histories": 0, "replay_fetches_compared": 0,
                    "drift": 0, "drift_samples": [], "exhaustive": True}
    mc = internmc.run_mc(tier, wd)
    jobs = internmc.replay_jobs(mc, 6000 if tier == "quick" else 60000, seed)
    r = seqcheck.run_family(binary, "mc-intern", seed, 0, 0, wd, jobs=jobs)
    checked, mism = internmc.compare(jobs, r["trace"])
    results.append(r)
    info["states"] += mc["distinct"]
    info["transitions"] += mc["generated"]
    info["mc_models"].append({"spec": "specs/intern/Intern.tla", "family": "mc-intern", "constants": mc["consts"],
                              "distinct_states": mc["distinct"], "states_generated": mc["generated"], "depth": mc["depth"],
                              "invariants": internmc.INVARIANTS, "leaf_histories_emitted": len(mc["replays"]),
                              "replayed_on_impl": len(jobs), "wall_s": round(mc["wall_s"], 1)})
    info["replayed_histories"] += len(jobs)
    info["replay_fetches_compared"] += checked
    info["drift"] += len(mism)
    info["drift_samples"] += mism[:3]
    log(f"[{pid}] MC intern: {mc['distinct']} distinct states, {len(mc['replays'])} behaviours, {len(jobs)} replayed on salsa, "
        f"{checked} requests compared (executed?, slot, generation, value), differences={len(mism)} ({mc['wall_s']:.0f}s)")
    if mism:
        log(f"DRIFT: salsa's interner differs from the Intern model's prediction in {len(mism)} requests "
            f"(not a property violation by itself). e.g. {json.dumps(mism[:1])}")
    return info


def run_fixrev_part(pid, tier, seed, binary, wd, results, info, fb, panics=False):
    """The fixpoint engine across revisions (FixRev.tla; fb: the cycle_result / FallbackImmediate strategy):
    exhaustive small instances + simulated larger ones, every emitted behaviour replayed on salsa."""
    info = info or {"states": 0, "transitions": 0, "mc_models": [], "replayed_histories": 0, "replay_fetches_compared": 0,
                    "drift": 0, "drift_samples": [], "exhaustive": True}
    mc = fixmc.run_fixrev(tier, wd, fb=fb, panics=panics)
    jobs = fixmc.replay_jobs_rev(mc, 6000 if tier == "quick" else 60000, seed, kind="fb" if fb else "fix")
    r = seqcheck.run_family(binary, "mc-fixpanic" if panics else "mc-fixrevfb" if fb else "mc-fixrev", seed, 0, 0, wd, jobs=jobs)
    checked, wrong, drift = fixmc.compare(jobs, r["trace"])
    results.append(r)
    info["states"] += mc["distinct"]
    info["transitions"] += mc["generated"]
    info["mc_models"].append({"spec": "specs/cycle/FixRev.tla", "family": "mc-fixpanic" if panics else "mc-fixrevfb" if fb else "mc-fixrev", "constants": mc["consts"],
                              "strategy": "cycle_result (FallbackImmediate); the model reproduces salsa's history-dependent fallback results (known findings F3/F4): NoBadFb" if fb else "cycle_fn / cycle_initial",
                              "distinct_states": mc["distinct"], "states_generated": mc["generated"], "depth": mc["depth"],
                              "invariants": ["NoBadFb", "LocksQuiescent"] if fb else fixmc.REV_INVARIANTS, "leaf_histories_emitted": len(mc["replays"]),
                              "replayed_on_impl": len(jobs), "value_mismatches": len(wrong), "wall_s": round(mc["wall_s"], 1)})
    info["replayed_histories"] += len(jobs)
    info["replay_fetches_compared"] += checked
    info["drift"] += len(drift)
    info["drift_samples"] += drift[:3]
    log(f"[{pid}] MC fixrev{' (fallback strategy)' if fb else ''}{' (user panics)' if panics else ''}: {mc['distinct']} states (exhaustive + simulated configurations {mc['consts']}), {len(mc['replays'])} behaviours, "
        f"{len(jobs)} replayed on salsa, {checked} fetches compared, outcome/value mismatches={len(wrong)}, "
        f"execution-sequence drift={len(drift)} ({mc['wall_s']:.0f}s)")
    if drift:
        log(f"DRIFT: salsa's sequence of body executions differs from the FixRev model's in {len(drift)} fetches "
            f"(not a property violation by itself). e.g. {json.dumps(drift[:1])}")
    return info


def finish(pid, tier, seed, results, cfg, known, wd, t0, mc):
    bad_tool = [r for r in results if not r["accepted"]]
    if bad_tool:
        for r in bad_tool:
            log(f"[{pid}] trace of family {r['family']} not accepted by the monitor (structural mismatch / TLC error):")
            log(r["res"].get("tail", ""))
        raise ToolError("trace validation did not complete")
    own, others, known_hits = [], {}, []
    adopted = set()
    for r in results:
        jobs_by_id = {j["id"]: j for j in r["jobs"]}
        for (vid, ln, detail) in r["viols"]:
            jid = seqcheck.job_of_line(r["starts"], ln)
            job = jobs_by_id.get(jid)
            if vid != pid:
                # reports of other properties whose detail names a guard of this property's mechanism are adopted
                if cfg.get("adopt") and re.search(cfg["adopt"], str(detail)) and (r["family"], ln) not in adopted:
                    adopted.add((r["family"], ln))
                else:
                    others.setdefault(vid, []).append((r["family"], jid))
                    continue
            kf = known_match(known, pid, job, seqcheck.trace_excerpt(r["trace"], r["starts"], jid, maxlines=100000), detail) if job else None
            if kf:
                known_hits.append(kf)
            else:
                own.append((r, jid, ln, detail))
    for kf in {json.dumps(k, sort_keys=True) for k in known_hits}:
        k = json.loads(kf)
        log(f"KNOWN-FINDING: property={pid} {k.get('what', '')}")
    for vid, lst in sorted(others.items()):
        log(f"NOTE: {len(lst)} violation report(s) of other property {vid} in these runs (e.g. family {lst[0][0]} job {lst[0][1]}); run ./check {vid}")
    # evidence
    total_jobs = sum(len(r["jobs"]) for r in results)
    events = sum(r["events"] for r in results)
    digests = set()
    nontrivial = set()
    for r in results:
        for j in r["jobs"]:
            dg = job_digest(j)
            digests.add(dg)
            st = r["stats"].get(j["id"], {})
            if all(st.get(k, 0) > 0 for k in cfg["needs"]):
                nontrivial.add(dg)
    samples = []
    for r in results[:3]:
        if r["jobs"]:
            j = r["jobs"][0]
            samples.append({"family": r["family"], "history": j["hist"][:12],
                            "functions": [f["kind"] for f in j["prog"]["fns"]],
                            "trace_head": seqcheck.trace_excerpt(r["trace"], r["starts"], j["id"])[1:9]})
    coverage = {
        "evaluations": total_jobs,
        "distinct_nontrivial": len(nontrivial),
        "rule": cfg["rule"],
        "samples": samples,
        "traces_validated_against_impl": total_jobs,
        "trace_events": events,
        "distinct_jobs": len(digests),
        "monitor_states": sum(r["res"].get("distinct", 0) for r in results),
        "families": {r["family"]: len(r["jobs"]) for r in results},
        "other_property_reports": {k: len(v) for k, v in others.items()},
        "known_findings_hit": len(known_hits),
    }
    if mc:
        coverage.update(mc)
    level = meta.META[pid]["level"]
    write_evidence(pid, tier, seed, level, coverage, time.time() - t0, len(own), ASSUME_SEQ)
    if own:
        os.makedirs(os.path.join(WORK, "replay"), exist_ok=True)
        seen = set()
        for (r, jid, ln, detail) in own:
            if (r["family"], jid) in seen:
                continue
            seen.add((r["family"], jid))
            job = {j["id"]: j for j in r["jobs"]}.get(jid)
            path = os.path.join(WORK, "replay", f"{pid}-{r['family']}-s{seed}-job{jid}.json")
            with open(path, "w") as f:
                json.dump({"property": pid, "family": r["family"], "job": job, "violation": detail, "trace_line": ln,
                           "trace_excerpt": seqcheck.trace_excerpt(r["trace"], r["starts"], jid, upto=ln)}, f, indent=1)
            log(f"VIOLATION property={pid} replay={path}")
            log(f"  detail: {detail[:300]}")
            if len(seen) >= 5:
                break
        return 1
    log(f"[{pid}] ok: {total_jobs} histories, {events} events validated, {len(nontrivial)} non-trivial, {time.time() - t0:.1f}s")
    return 0


PAR_TIERS = {"quick": dict(njobs=60), "thorough": dict(njobs=600)}


def run_par_families(binary, fams, tier, seed, wd, monitors=("par", "sync")):
    t = PAR_TIERS[tier]
    # thread-heavy runs: keep the number of concurrently running drivers small, TLC runs are single-threaded
    with ThreadPoolExecutor(max_workers=4) as ex:
        futs = [ex.submit(parcheck.run_par_family, binary, fam, seed * 1000 + 500 + i, max(10, int(t["njobs"] * JOBS_FACTOR.get(fam, 1))), wd, None, 3, monitors)
                for i, fam in enumerate(fams)]
        return [f.result() for f in futs]


def run_par(pid, tier, seed, replay):
    t0 = time.time()
    cfg = PAR[pid]
    binary, bt = build_harness("default")
    log(f"[{pid}] harness built in {bt:.1f}s")
    wd = workdir(f"{pid}-{tier}")
    known = load_known()
    if replay:
        rp = json.load(open(replay))
        jobs = [rp["job"]] if "job" in rp else rp["jobs"]
        results = [parcheck.run_par_family(binary, rp.get("family", "replay"), seed, 0, wd, jobs=jobs)]
    else:
        results = run_par_families(binary, cfg["par"], tier, seed, wd, cfg.get("monitors", ("par", "sync")))
    extra = protomc.run_models(cfg.get("models", []), wd) if not replay else {}
    for m in extra.get("mc_models", []):
        log(f"[{pid}] MC {m['config']}: {m['distinct_states']} distinct states ({m['wall_s']}s)")
    extra.update({"monitors": list(cfg.get("monitors", ("par", "sync"))), "protocol_events": {"blocked": sum(r["proto"][0] for r in results), "releases": sum(r["proto"][1] for r in results),
                                 "transfers": sum(r["proto"][2] for r in results), "cycles_reported": sum(r["proto"][3] for r in results)},
             "hangs": sum(r["hangs"] for r in results)})
    return finish(pid, tier, seed, results, cfg, known, wd, t0, mc=extra)


FAULT_FAMILIES = ["core", "lru", "struct", "intern", "spec", "fix", "accum"]


def run_fault(pid, tier, seed, replay):
    """C22: crash-point enumeration. Every history is run once to count its user callbacks, then once per
    callback with a panic injected there; the monitor judges every outcome afterwards."""
    t0 = time.time()
    cfg = dict(needs=["inject"], rule="base histories (8 operations) over the families " + ", ".join(FAULT_FAMILIES) +
               "; one run per user callback (body entry, every read, PartialEq/Hash of values, identity and interned "
               "fields, cycle_fn / cycle_initial / cycle_result, the event callback) with a panic injected there; "
               "non-trivial = the injected panic actually fired; plus parallel runs with waiters (parpanic family)")
    binary, bt = build_harness("default")
    log(f"[{pid}] harness built in {bt:.1f}s")
    wd = workdir(f"{pid}-{tier}")
    known = load_known()
    results = []
    if replay:
        rp = json.load(open(replay))
        jobs = [rp["job"]] if "job" in rp else rp["jobs"]
        if jobs and jobs[0].get("rounds"):
            results.append(parcheck.run_par_family(binary, "replay", seed, 0, wd, jobs=jobs))
        else:
            results.append(seqcheck.run_family(binary, rp.get("family", "replay"), seed, 0, 0, wd, jobs=jobs))
        return finish(pid, tier, seed, results, cfg, known, wd, t0, mc=None)
    nprog = 10 if tier == "quick" else 60
    cap = 30 if tier == "quick" else 100000
    import gen as G
    crash_points = 0
    def one_family(args):
        i, fam = args
        base = G.gen_jobs(seed * 1000 + 700 + i, nprog, fam, 8)
        jp = os.path.join(wd, f"base_{fam}.ndjson")
        tp = os.path.join(wd, f"basetrace_{fam}.ndjson")
        with open(jp, "w") as f:
            for j in base:
                f.write(json.dumps(j, separators=(",", ":")) + "\n")
        run_driver(binary, "seq", jp, tp)
        cbs = {}
        eqs = {}
        cur = None
        for line in open(tp):
            if '"e":"reset"' in line[:40]:
                cur = json.loads(line)["job"]
            elif '"e":"dbdrop_end"' in line[:40]:
                cbs[cur] = json.loads(line).get("cbs", 0)
            elif '"e":"eq"' in line and '"cbn"' in line:
                eqs.setdefault(cur, set()).add(json.loads(line)["cbn"])
        jobs = []
        total = 0
        for j in base:
            n = cbs.get(j["id"], 0)
            total += n
            ks = list(range(1, n + 1))
            if len(ks) > cap:
                # every PartialEq point (backdating comparisons) and an even sample of the others
                step = len(ks) / cap
                ks = sorted({ks[int(x * step)] for x in range(cap)} | {k for k in eqs.get(j["id"], ()) if k <= n})
            for k in ks:
                jj = dict(j)
                jj["id"] = len(jobs) + 1
                jj["inject"] = k
                jj["mode"] = "fault-" + fam
                jobs.append(jj)
        r = seqcheck.run_family(binary, "fault-" + fam, seed, 0, 0, wd, jobs=jobs)
        r["crash_points_total"] = total
        return r
    with ThreadPoolExecutor(max_workers=6) as ex:
        results = list(ex.map(one_family, list(enumerate(FAULT_FAMILIES))))
    results += run_par_families(binary, ["parpanic"], tier, seed, wd)
    extra = {"crash_points_in_base_histories": sum(r.get("crash_points_total", 0) for r in results),
             "exhaustive": tier == "thorough"}
    # the fixpoint engine with user panics (FixRev.tla, MaxPanics > 0): every behaviour of the model replayed
    extra.update(run_fixrev_part(pid, tier, seed, binary, wd, results, None, fb=False, panics=True))
    return finish(pid, tier, seed, results, cfg, known, wd, t0, mc=extra)


def run(pid, tier, seed, replay):
    REPLAY_MODE[0] = bool(replay)
    if pid == "C25":
        import codeccheck
        return codeccheck.run(pid, tier, seed, replay)
    if pid == "C22":
        return run_fault(pid, tier, seed, replay)
    if pid in PAR:
        return run_par(pid, tier, seed, replay)
    if pid in SEQ:
        return run_seq(pid, tier, seed, replay)
    log(f"unknown property {pid}")
    return 2
