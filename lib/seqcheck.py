"""Sequential-engine checks: generate programs+histories, run them on real salsa, validate the
recorded traces with TLC against specs/core/CoreTrace.tla (monitor) and judge one property."""
import json
import os
import sys
import time
from concurrent.futures import ThreadPoolExecutor

from common import *

sys.path.insert(0, os.path.join(ROOT, "gen"))
import gen  # noqa: E402

CORE_SPEC = os.path.join(SPECS, "core", "CoreTrace.tla")
CORE_CFG = os.path.join(SPECS, "core", "CoreTrace.cfg")


def split_trace(trace_path):
    """line number (1-based) of every reset event -> job id."""
    starts = []
    with open(trace_path) as f:
        for n, line in enumerate(f, 1):
            if line.startswith('{"e":"reset"') or '"e":"reset"' in line[:40]:
                try:
                    starts.append((n, json.loads(line)["job"]))
                except Exception:
                    pass
    return starts


def job_of_line(starts, ln):
    cur = None
    for s, j in starts:
        if s <= ln:
            cur = j
        else:
            break
    return cur


def trace_stats(trace_path):
    """Per-job event-kind counts (used for the non-triviality rules)."""
    stats = {}
    cur = None
    with open(trace_path) as f:
        for line in f:
            try:
                e = json.loads(line)
            except Exception:
                continue
            k = e.get("e")
            if k == "reset":
                cur = e["job"]
                stats[cur] = {}
                continue
            if cur is None:
                continue
            d = stats[cur]
            d[k] = d.get(k, 0) + 1
            if k == "ret" and e.get("ok") == 0:
                d["panic:" + e.get("kind", "")] = d.get("panic:" + e.get("kind", ""), 0) + 1
            if k == "hk":
                d["hk:" + e.get("name", "")] = d.get("hk:" + e.get("name", ""), 0) + 1
            if k == "op":
                d["op:" + e.get("op", "")] = d.get("op:" + e.get("op", ""), 0) + 1
    return stats


def run_family(binary, family, seed, njobs, nops, wd, jobs=None, mode="seq"):
    if jobs is None:
        jobs = gen.gen_jobs(seed, njobs, family, nops)
    jp = os.path.join(wd, f"jobs_{family}.ndjson")
    tp = os.path.join(wd, f"trace_{family}.ndjson")
    with open(jp, "w") as f:
        for j in jobs:
            f.write(json.dumps(j, separators=(",", ":")) + "\n")
    run_driver(binary, mode, jp, tp)
    twd = os.path.join(wd, f"tlc_{family}")
    os.makedirs(twd, exist_ok=True)
    viols, accepted, res = validate_trace(CORE_SPEC, CORE_CFG, tp, twd)
    starts = split_trace(tp)
    stats = trace_stats(tp)
    nlines = sum(1 for _ in open(tp))
    return {"family": family, "jobs": jobs, "trace": tp, "viols": viols, "accepted": accepted, "res": res,
            "starts": starts, "stats": stats, "events": nlines}


def trace_excerpt(trace_path, starts, jobid, upto=None, maxlines=400):
    lo = hi = None
    for i, (s, j) in enumerate(starts):
        if j == jobid:
            lo = s
            hi = starts[i + 1][0] - 1 if i + 1 < len(starts) else None
            break
    out = []
    if lo is None:
        return out
    with open(trace_path) as f:
        for n, line in enumerate(f, 1):
            if n < lo:
                continue
            if hi is not None and n > hi:
                break
            if upto is not None and n > upto:
                break
            out.append(line.rstrip("\n"))
    return out[-maxlines:]
