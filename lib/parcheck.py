"""Parallel checks: seeded jobs on real threads, traces validated by two TLC monitors
(specs/core/ParTrace.tla for results / cancellation, specs/sync/SyncTrace.tla for the protocol events)."""
import json
import os
import sys

from common import *
import seqcheck

sys.path.insert(0, os.path.join(ROOT, "gen"))
import gen  # noqa: E402

PAR_SPEC = os.path.join(SPECS, "core", "ParTrace.tla")
PAR_CFG = os.path.join(SPECS, "core", "ParTrace.cfg")
SYNC_SPEC = os.path.join(SPECS, "sync", "SyncTrace.tla")
SYNC_CFG = os.path.join(SPECS, "sync", "SyncTrace.cfg")


def run_par_family(binary, family, seed, njobs, wd, jobs=None, nrounds=3, monitors=("par", "sync")):
    if jobs is None:
        jobs = gen.gen_par_jobs(seed, njobs, family, nrounds)
    tag = f"{family}_{seed}"
    jp = os.path.join(wd, f"jobs_{tag}.ndjson")
    tp = os.path.join(wd, f"trace_{tag}.ndjson")
    with open(jp, "w") as f:
        for j in jobs:
            f.write(json.dumps(j, separators=(",", ":")) + "\n")
    run_driver(binary, "par", jp, tp, timeout=1200)
    viols, accepted, res_all = [], True, {"distinct": 0}
    proto_stats = [0, 0, 0, 0]
    for m in monitors:
        twd = os.path.join(wd, f"tlc_{tag}_{m}")
        os.makedirs(twd, exist_ok=True)
        spec, cfg = (PAR_SPEC, PAR_CFG) if m == "par" else (SYNC_SPEC, SYNC_CFG)
        v, a, res = validate_trace(spec, cfg, tp, twd)
        viols += v
        accepted = accepted and a
        res_all["distinct"] += res.get("distinct", 0)
        if not a:
            res_all["tail"] = res.get("tail", "")
        if m == "sync":
            import re
            for mm in re.finditer(r'STAT\|(\d+)\|(\d+)\|(\d+)\|(\d+)', res["out"]):
                for i in range(4):
                    proto_stats[i] += int(mm.group(i + 1))
    starts = seqcheck.split_trace(tp)
    stats = seqcheck.trace_stats(tp)
    nlines = sum(1 for _ in open(tp))
    hangs = sum(1 for l in open(tp) if '"e":"hang"' in l)
    return {"family": family, "jobs": jobs, "trace": tp, "viols": viols, "accepted": accepted, "res": res_all,
            "starts": starts, "stats": stats, "events": nlines, "proto": proto_stats, "hangs": hangs}
