"""Shared plumbing for the /verif checks: builds, TLC runs, evidence, verdicts."""
import hashlib
import json
import os
import re
import shutil
import subprocess
import sys
import time

ROOT = os.path.dirname(os.path.dirname(os.path.abspath(__file__)))
WORK = os.path.join(ROOT, "work")
HARNESS = os.path.join(ROOT, "harness")
SPECS = os.path.join(ROOT, "specs")
EVID = os.path.join(ROOT, "evidence")
KNOWN = os.path.join(ROOT, "known_findings.json")

ENV_OFFLINE = {"CARGO_NET_OFFLINE": "true"}


class ToolError(Exception):
    pass


def log(*a):
    print(*a, flush=True)


def workdir(name):
    d = os.path.join(WORK, name)
    shutil.rmtree(d, ignore_errors=True)
    os.makedirs(d, exist_ok=True)
    return d


VARIANTS = {
    # name -> (cargo feature args, target dir)
    "default": (["--features", "hooks"], "target"),
    "persist": (["--features", "hooks,persistence"], "target-persist"),
    "shuttle": (["--features", "hooks,shuttle"], "target-shuttle"),
}


def build_harness(variant="default"):
    feats, tdir = VARIANTS[variant]
    env = dict(os.environ)
    env.update(ENV_OFFLINE)
    hdir = HARNESS
    alt = os.environ.get("VERIF_REPO")
    if alt:
        # development aid (seeded changes are tried in a scratch worktree without touching /repo): a copy of the
        # harness whose salsa dependency points at $VERIF_REPO. Registered commands never set this variable.
        hdir = os.path.join(ROOT, "work", "alt-harness")
        os.makedirs(hdir, exist_ok=True)
        subprocess.run(["rsync", "-a", "--delete", "--exclude", "target*", HARNESS + "/", hdir + "/"], check=True)
        ct = open(os.path.join(hdir, "Cargo.toml")).read().replace('path = "/repo"', f'path = "{alt}"')
        open(os.path.join(hdir, "Cargo.toml"), "w").write(ct)
    cmd = ["cargo", "build", "--offline", "--no-default-features", "--target-dir", tdir] + feats
    t0 = time.time()
    p = subprocess.run(cmd, cwd=hdir, env=env, stdout=subprocess.PIPE, stderr=subprocess.STDOUT, text=True)
    if p.returncode != 0:
        log(p.stdout[-4000:])
        raise ToolError("harness build failed")
    return os.path.join(hdir, tdir, "debug", "drive"), time.time() - t0


def run_driver(binary, mode, jobs_path, trace_path, timeout=600, extra_env=None):
    env = dict(os.environ)
    if extra_env:
        env.update(extra_env)
    p = subprocess.run([binary, mode, jobs_path, trace_path], stdout=subprocess.PIPE, stderr=subprocess.STDOUT,
                       text=True, timeout=timeout, env=env)
    if p.returncode != 0:
        log(p.stdout[-2000:])
        raise ToolError(f"driver {mode} failed with {p.returncode}")
    return p.stdout


def tlc_cmd(spec, cfg, wd, workers, extra=None, heap="4g", deque=True, simulate=None):
    tmp = os.path.join(wd, "tmp")
    os.makedirs(tmp, exist_ok=True)
    jopts = f"-Xss1g -Djava.io.tmpdir={tmp}"
    if deque:
        jopts += " -Dtlc2.tool.queue.IStateQueue=StateDeque"
    cmd = ["java", "-XX:+UseParallelGC", f"-Xmx{heap}", "-cp",
           "/opt/veriftools/tla/tla2tools.jar:/opt/veriftools/tla/CommunityModules-deps.jar", "tlc2.TLC",
           "-workers", str(workers), "-metadir", os.path.join(wd, "meta"), "-cleanup", "-noGenerateSpecTE"]
    if simulate:
        cmd += ["-simulate", simulate]
    cmd += (extra or []) + ["-config", cfg, spec]
    return cmd, jopts


def run_tlc(spec, cfg, wd, workers=1, env_extra=None, timeout=600, extra=None, heap="4g", deque=True, simulate=None):
    cmd, jopts = tlc_cmd(spec, cfg, wd, workers, extra, heap, deque, simulate)
    env = dict(os.environ)
    env["JAVA_TOOL_OPTIONS"] = jopts
    if env_extra:
        env.update(env_extra)
    t0 = time.time()
    try:
        p = subprocess.run(cmd, cwd=os.path.dirname(spec), env=env, stdout=subprocess.PIPE, stderr=subprocess.STDOUT,
                           text=True, timeout=timeout)
        out = p.stdout
        rc = p.returncode
    except subprocess.TimeoutExpired as e:
        out = (e.stdout or b"").decode() if isinstance(e.stdout, bytes) else (e.stdout or "")
        rc = -9
    res = {"rc": rc, "out": out, "wall_s": time.time() - t0}
    m = re.search(r"(\d+) states generated, (\d+) distinct states found", out)
    if m:
        res["generated"] = int(m.group(1))
        res["distinct"] = int(m.group(2))
    m = re.search(r"depth of the complete state graph search is (\d+)", out)
    if m:
        res["depth"] = int(m.group(1))
    shutil.rmtree(os.path.join(wd, "meta"), ignore_errors=True)
    shutil.rmtree(os.path.join(wd, "tmp"), ignore_errors=True)
    return res


VIOL_RE = re.compile(r'^"?VIOL\|([A-Z0-9]+)\|(\d+)\|(.*?)"?$', re.M)


def validate_trace(spec, cfg, trace, wd, timeout=900):
    """Run a monitor spec over a recorded trace. Returns (violations, accepted, res)."""
    res = run_tlc(spec, cfg, wd, workers=1, env_extra={"TRACE": trace}, timeout=timeout)
    out = res["out"]
    viols = [(m.group(1), int(m.group(2)), m.group(3)) for m in VIOL_RE.finditer(out)]
    accepted = ("STUCK" not in out) and res["rc"] == 0 and "distinct" in res
    if not accepted:
        tail = "\n".join(l for l in out.splitlines() if not l.startswith(("Parsing", "Semantic", "Linting")))[-3000:]
        res["tail"] = tail
    return viols, accepted, res


def load_known():
    if not os.path.exists(KNOWN):
        return {"findings": [], "fixed": []}
    return json.load(open(KNOWN))


def job_digest(job):
    j = {"prog": job["prog"], "hist": job["hist"], "inject": job.get("inject", 0)}
    return hashlib.sha256(json.dumps(j, sort_keys=True, separators=(",", ":")).encode()).hexdigest()[:16]


REPLAY_MODE = [False]      # set by props.run for `--replay` runs: they describe one history, not the check


def write_evidence(pid, tier, seed, level, coverage, wall_s, violations, assumptions):
    if REPLAY_MODE[0] or os.environ.get("VERIF_REPO"):
        # a replay of a single history, or a development run against another tree: not evidence for the check
        return
    os.makedirs(EVID, exist_ok=True)
    ev = {"property_id": pid, "tier": tier, "seed": seed, "level": level, "coverage": coverage,
          "assumptions": assumptions, "wall_s": round(wall_s, 2), "violations": violations}
    tmp = os.path.join(EVID, f".{pid}.json.tmp")
    with open(tmp, "w") as f:
        json.dump(ev, f, indent=1)
    os.replace(tmp, os.path.join(EVID, f"{pid}.json"))
