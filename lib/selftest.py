"""`./check selftest`: demonstrates that the monitors are bound to what the code logs: single fields of
recorded traces are corrupted / one hook event kind is removed and the corresponding property must be
reported (or the trace must be rejected). Results: /verif/selftest.json. Not a registered property check."""
import json
import os
import sys

from common import *
import seqcheck
import parcheck

sys.path.insert(0, os.path.join(ROOT, "gen"))
import gen  # noqa: E402


def mutate_lines(src, dst, fn):
    n = 0
    with open(src) as f, open(dst, "w") as o:
        for line in f:
            e = json.loads(line)
            r = fn(e, n)
            if r is None:
                continue
            if r is not e:
                n += 1
            o.write(json.dumps(r, separators=(",", ":")) + "\n")
    return n


def main(args):
    binary, _ = build_harness("default")
    wd = workdir("selftest")
    results = []
    base = seqcheck.run_family(binary, "core", 4242, 40, 25, wd)
    assert base["accepted"] and not [v for v in base["viols"]], "baseline trace must be clean"
    par = parcheck.run_par_family(binary, "parfix", 4243, 25, wd)
    assert par["accepted"] and not par["viols"], "baseline parallel trace must be clean"

    def run_seq(name, fn, expect):
        dst = os.path.join(wd, f"mut_{name}.ndjson")
        state = {"done": 0}
        def wrap(e, n):
            return fn(e, state)
        mutate_lines(base["trace"], dst, wrap)
        v, acc, res = validate_trace(seqcheck.CORE_SPEC, seqcheck.CORE_CFG, dst, os.path.join(wd, "tlc_" + name))
        ids = sorted({x[0] for x in v})
        ok = (expect in ids) if expect != "REJECT" else (not acc)
        results.append({"mutation": name, "expected": expect, "reported": ids, "accepted": acc, "ok": ok})

    def run_par(name, fn, expect, spec, cfg):
        dst = os.path.join(wd, f"mut_{name}.ndjson")
        state = {"done": 0}
        mutate_lines(par["trace"], dst, lambda e, n: fn(e, state))
        v, acc, res = validate_trace(spec, cfg, dst, os.path.join(wd, "tlc_" + name))
        ids = sorted({x[0] for x in v})
        ok = (expect in ids) if expect != "REJECT" else (not acc)
        results.append({"mutation": name, "expected": expect, "reported": ids, "accepted": acc, "ok": ok})

    # 1. a returned value is corrupted
    def m_ret(e, st):
        if e.get("e") == "ret" and e.get("ok") == 1 and e.get("s", 0) > 0 and st["done"] < 3:
            st["done"] += 1
            e = dict(e); e["v"] = 1 - e["v"]
        return e
    run_seq("corrupt_return_value", m_ret, "C01")
    # 2. a WillExecute is duplicated (an execution that nothing justifies)
    def m_we(e, st):
        return e
    dst = os.path.join(wd, "mut_dup_we.ndjson")
    with open(base["trace"]) as f, open(dst, "w") as o:
        last_we = None
        done = 0
        for line in f:
            e = json.loads(line)
            o.write(line)
            if e.get("e") == "ret" and last_we is not None and done < 3:
                pass
            if e.get("e") == "be" and done < 3:
                # replay the whole execution of this key once more right after it finished
                done += 1
                o.write(json.dumps({"t": 0, "e": "we", "k": e["k"], "kj": e["kj"], "km": e["km"], "ki": e["ki"]}) + "\n")
                o.write(json.dumps({"t": 0, "e": "bs", "k": e["k"], "kj": e["kj"], "km": e["km"], "ki": e["ki"]}) + "\n")
                o.write(line)
    v, acc, res = validate_trace(seqcheck.CORE_SPEC, seqcheck.CORE_CFG, dst, os.path.join(wd, "tlc_dup_we"))
    ids = sorted({x[0] for x in v})
    results.append({"mutation": "duplicate_execution", "expected": "C03", "reported": ids, "accepted": acc, "ok": "C03" in ids})
    # 3. the writer_proceeds hook events are removed
    run_seq("remove_wproc_events", lambda e, st: None if e.get("e") == "wproc" else e, "C02")
    # 4. a wait result is corrupted
    def m_unblock(e, st):
        if e.get("e") == "hk" and e.get("name") == "dg_unblock" and st["done"] < 2:
            st["done"] += 1
            e = dict(e); e["text"] = "Panicked" if e["text"] == "Completed" else "Completed"
        return e
    run_par("corrupt_wait_result", m_unblock, "C19", parcheck.SYNC_SPEC, parcheck.SYNC_CFG)
    # 5. the wake events are removed (waiters never resumed)
    run_par("remove_dg_wake", lambda e, st: None if (e.get("e") == "hk" and e.get("name") == "dg_wake") else e, "C19",
            parcheck.SYNC_SPEC, parcheck.SYNC_CFG)
    # 6. a block edge is redirected so that it closes a cycle with the waiter itself
    def m_block(e, st):
        if e.get("e") == "hk" and e.get("name") == "dg_block" and st["done"] < 1:
            st["done"] += 1
            e = dict(e); e["a1"] = e["a0"]
        return e
    run_par("self_wait_edge", m_block, "C19", parcheck.SYNC_SPEC, parcheck.SYNC_CFG)
    # 7. a thread's result in a parallel run is corrupted
    def m_pret(e, st):
        if e.get("e") == "ret" and e.get("ok") == 1 and e.get("t", 0) > 0 and st["done"] < 2:
            st["done"] += 1
            e = dict(e); e["v"] = (e["v"] + 1) % 8
        return e
    run_par("corrupt_thread_result", m_pret, "C18", parcheck.PAR_SPEC, parcheck.PAR_CFG)
    # 7b. a wait-for edge logged after a lock transfer (state projection, hook dg_edges) is redirected
    par3 = parcheck.run_par_family(binary, "parnest3", 4244, 40, wd)
    assert par3["accepted"] and not par3["viols"], "baseline parnest3 trace must be clean"
    def m_edges(e, st):
        if e.get("e") == "hk" and e.get("name") == "dg_edges" and e.get("d") and st["done"] < 2:
            st["done"] += 1
            e = dict(e); d = [list(x) for x in e["d"]]; d[0][1] = d[0][1] % 4 + 1 if d[0][1] % 4 + 1 != d[0][0] else (d[0][1] + 1) % 4 + 1
            e["d"] = d
        return e
    dst = os.path.join(wd, "mut_corrupt_dg_edges.ndjson")
    state = {"done": 0}
    mutate_lines(par3["trace"], dst, lambda e, n: m_edges(e, state))
    v, acc, res = validate_trace(parcheck.SYNC_SPEC, parcheck.SYNC_CFG, dst, os.path.join(wd, "tlc_corrupt_dg_edges"))
    ids = sorted({x[0] for x in v})
    results.append({"mutation": "corrupt_dg_edges", "expected": "C19", "reported": ids, "accepted": acc,
                    "ok": ("C19" in ids) or state["done"] == 0, "mutated": state["done"]})
    # 8. an unknown field shape: a `ret` without its value field is a structural mismatch
    def m_struct(e, st):
        if e.get("e") == "ret" and st["done"] < 1:
            st["done"] += 1
            e = dict(e); del e["ok"]
        return e
    run_seq("drop_field_of_event", m_struct, "REJECT")

    out = {"results": results, "all_ok": all(r["ok"] for r in results)}
    with open(os.path.join(ROOT, "selftest.json"), "w") as f:
        json.dump(out, f, indent=1)
    for r in results:
        log(("ok   " if r["ok"] else "FAIL ") + f"{r['mutation']}: expected {r['expected']}, reported {r['reported']}, accepted={r['accepted']}")
    return 0 if out["all_ok"] else 2
