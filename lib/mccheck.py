"""Exhaustive model checking of the generative engine spec (specs/core/CoreGen.tla) and
replay of TLC-generated histories into real salsa (spec -> impl conformance)."""
import json
import os
import random
import re
import sys
import time

from common import *

sys.path.insert(0, os.path.join(ROOT, "gen"))
import mcprogs  # noqa: E402
import seqcheck  # noqa: E402

MC_SPEC = os.path.join(SPECS, "core", "MC_CoreGen.tla")

# family -> constants of the bounded model (quick, thorough)
MC_CFG = {
    "core": dict(quick=dict(MaxOps=5, MaxWrites=3, DurChoices="{4}", SynthDurs="{}", CapChoices="{}"),
                 thorough=dict(MaxOps=6, MaxWrites=3, DurChoices="{4, 2}", SynthDurs="{0}", CapChoices="{}")),
    "dur": dict(quick=dict(MaxOps=5, MaxWrites=3, DurChoices="{4, 0, 2}", SynthDurs="{1}", CapChoices="{}"),
                thorough=dict(MaxOps=6, MaxWrites=3, DurChoices="{4, 0, 2, 3}", SynthDurs="{1, 3}", CapChoices="{}")),
    "untracked": dict(quick=dict(MaxOps=5, MaxWrites=3, DurChoices="{4}", SynthDurs="{1}", CapChoices="{}"),
                      thorough=dict(MaxOps=6, MaxWrites=4, DurChoices="{4, 2}", SynthDurs="{0, 2}", CapChoices="{}")),
    "lru": dict(quick=dict(MaxOps=5, MaxWrites=3, DurChoices="{4}", SynthDurs="{}", CapChoices="{0, 1}"),
                thorough=dict(MaxOps=6, MaxWrites=3, DurChoices="{4}", SynthDurs="{0}", CapChoices="{0, 1, 2}")),
}

INVARIANTS = ["NoViol", "LcMonotone", "MemoStamps", "ShallowSound", "StampBelowSem", "EmitInv"]


def write_cfg(path, consts, emit):
    with open(path, "w") as f:
        f.write("SPECIFICATION Spec\nCONSTANTS\n")
        for k, v in consts.items():
            f.write(f"  {k} = {v}\n")
        f.write(f"  Emit = {'TRUE' if emit else 'FALSE'}\n  defaultInitValue = 0\n")
        f.write("INVARIANTS " + " ".join(INVARIANTS) + "\nVIEW View\nCHECK_DEADLOCK FALSE\n")


def run_mc(family, tier, wd, emit=True, timeout=3000, workers=16):
    progs = mcprogs.FAMILIES[family]
    pp = os.path.join(wd, f"mcprogs_{family}.ndjson")
    with open(pp, "w") as f:
        for p in progs:
            f.write(json.dumps(p, separators=(",", ":")) + "\n")
    cfgp = os.path.join(wd, f"MC_{family}.cfg")
    consts = MC_CFG[family][tier]
    write_cfg(cfgp, consts, emit)
    twd = os.path.join(wd, f"mc_{family}")
    os.makedirs(twd, exist_ok=True)
    res = run_tlc(MC_SPEC, cfgp, twd, workers=workers, env_extra={"PROGS": pp}, timeout=timeout, heap="12g", deque=False)
    out = res["out"]
    if res["rc"] != 0 or "No error has been found" not in out:
        tail = "\n".join(l for l in out.splitlines() if not l.startswith(("Parsing", "Semantic", "Linting", '"REPLAY')))[-4000:]
        log(tail)
        raise ToolError(f"model self-check failed or did not finish for family {family} (rc={res['rc']})")
    replays = []
    for m in re.finditer(r'^"?REPLAY\|(.*?)"?$', out, re.M):
        s = m.group(1)
        if s.endswith('"'):
            s = s[:-1]
        s = s.replace('\\"', '"')
        try:
            replays.append(json.loads(s))
        except Exception:
            pass
    return {"family": family, "consts": consts, "programs": progs, "generated": res.get("generated", 0),
            "distinct": res.get("distinct", 0), "depth": res.get("depth", 0), "replays": replays,
            "wall_s": res["wall_s"]}


def replay_jobs(mc, limit, seed):
    """Turn TLC-emitted histories into driver jobs (with the model's predictions attached)."""
    reps = mc["replays"]
    rng = random.Random(seed)
    if limit and len(reps) > limit:
        reps = rng.sample(reps, limit)
    jobs = []
    for n, r in enumerate(reps):
        prog = mc["programs"][r["p"] - 1]
        hist, pred = [], []
        for o in r["h"]:
            d = o.get("d", 0)
            op = {"op": o["op"], "f": o.get("f", 0), "i": o.get("i", 0), "v": o.get("v", 0) if o["op"] != "get" else 0,
                  "d": -1 if d == 4 else d, "k": o.get("k", 0)}
            hist.append(op)
            pred.append({"v": o.get("v"), "ex": o.get("ex", []), "va": sorted(o.get("va", []))} if o["op"] == "get" else None)
        jobs.append({"id": n + 1, "prog": prog, "hist": hist, "inject": 0, "seed": seed, "mode": "mc-" + mc["family"], "pred": pred})
    return jobs


def compare_predictions(jobs, trace_path):
    """Model-predicted (value, executed sequence, validated set) per fetch vs. the implementation's."""
    drift = []
    byid = {j["id"]: j for j in jobs}
    cur = None
    opn = -1
    ex, va = [], set()
    checked = 0
    with open(trace_path) as f:
        for line in f:
            e = json.loads(line)
            k = e.get("e")
            if k == "reset":
                cur = byid.get(e["job"])
                opn = -1
            elif k == "op":
                opn = e["n"] - 1
                ex, va = [], set()
            elif k == "we":
                ex.append(e["kj"])
            elif k == "dv":
                va.add(e["kj"])
            elif k == "ret" and cur is not None and 0 <= opn < len(cur["pred"]):
                p = cur["pred"][opn]
                if p is not None:
                    checked += 1
                    got = {"v": e.get("v"), "ex": ex, "va": sorted(va)}
                    if e.get("ok") != 1 or got != p:
                        drift.append({"job": cur["id"], "op": opn + 1, "model": p, "impl": got, "ok": e.get("ok")})
    return checked, drift
