#!/usr/bin/env python3
"""Writes /verif/MANIFEST.json from the property registry (single source of truth)."""
import json
import os
import sys

sys.path.insert(0, os.path.dirname(os.path.abspath(__file__)))
import meta  # noqa: E402

ROOT = os.path.dirname(os.path.dirname(os.path.abspath(__file__)))
props = [json.loads(l)["id"] for l in open(os.path.join(ROOT, "properties.jsonl"))]
checks = []
na = []
for pid in props:
    m = meta.META.get(pid)
    if not m or not m.get("claimed"):
        na.append({"property_id": pid, "reason": (m or {}).get("reason", "check not built yet (construction in progress)")})
        continue
    checks.append({
        "property_id": pid,
        "quick_cmd": f"./check {pid} --tier quick",
        "thorough_cmd": f"./check {pid} --tier thorough",
        "evidence_file": f"/verif/evidence/{pid}.json",
        "replay_cmd_template": f"./check {pid} --replay {{path}}",
        "engine": m["engine"],
        "level_claimed": {"category": m["level"], "text": m["text"], "design_ref": m["design_ref"]},
        "level_note": m["note"],
        "technique": m["technique"],
    })
man = {
    "version": 1,
    "setup_cmd": "./setup.sh",
    "hooks": {
        "guard": "cargo feature `verif-hooks` of the salsa crate (off by default)",
        "enable": "the harness crate (/verif/harness) depends on salsa = { path = \"/repo\", features = [\"verif-hooks\"] } via its `hooks` feature",
        "baseline_off_cmd": "cd /repo && cargo nextest run --workspace --no-fail-fast --test-threads 8 --offline || cargo test --workspace --no-fail-fast --offline",
        "source_commits": meta.HOOK_COMMITS,
        "add_only": True,
    },
    "engines": meta.ENGINES,
    "checks": checks,
    "notes": meta.NOTES,
    "not_applicable": na,
}
json.dump(man, open(os.path.join(ROOT, "MANIFEST.json"), "w"), indent=1)
print(f"{len(checks)} checks, {len(na)} not claimed")
