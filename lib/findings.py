"""Known-finding signatures.

A finding is identified by a *signature*: a specific, mechanically checked pattern of the failing
history (which events the failing operation contains), not by the property alone; any violation of
the same property that does not match a listed signature is still reported as VIOLATION.
The list itself lives in /verif/known_findings.json and is never written at run time.
"""
import json


def op_window(excerpt_lines):
    """Split a job's trace (list of json strings) into operations: list of lists of events.
    Events are grouped per logical thread (`t`), so traces of parallel runs work as well."""
    ops, cur = [], {}
    for l in excerpt_lines:
        try:
            e = json.loads(l)
        except Exception:
            continue
        t = e.get("t", 0)
        if e.get("e") == "op":
            cur[t] = [e]
            ops.append(cur[t])
        elif t in cur:
            cur[t].append(e)
    return ops


def call_edges(prog, inputs, j):
    """Callees of function j (1-based) under the given input values (chain bodies: calls via orcall only)."""
    nodes = prog["fns"][j - 1]["nodes"]
    out, n, steps = [], 1, 0
    while steps < 1000:
        steps += 1
        nd = nodes[n - 1]
        op = nd["op"]
        if op in ("ret", "retr"):
            break
        if op == "in":
            v = inputs[nd["a"] - 1][nd["b"] - 1]
            n = nd["kids"][min(v, len(nd["kids"]) - 1)]
        elif op in ("orcall", "call"):
            out.append(nd["a"])
            n = nd["kids"][0]
        else:
            n = nd["kids"][0]
    return out


def on_cycle(prog, inputs, j):
    seen, todo = set(), list(call_edges(prog, inputs, j))
    while todo:
        g = todo.pop()
        if g == j:
            return True
        if g in seen:
            continue
        seen.add(g)
        todo += call_edges(prog, inputs, g)
    return False


def sig_c13_participant_reexecuted(job, ops):
    """F3: a cycle_result function that lies on a call-graph cycle (under the current inputs) is executed
    without the cycle being detected: its body runs (WillExecute) but cycle_result is never invoked for it in
    that operation, because the other members of the cycle hold memos that are merely validated (their
    flattened dependencies are unchanged), so it returns its body's value instead of the fallback."""
    prog = job["prog"]
    kinds = {f"f{j + 1}": f["kind"] for j, f in enumerate(prog["fns"])}
    inputs = [[f[0] for f in inp] for inp in prog["inputs"]]
    for op in ops:
        o = op[0]
        if o.get("op") == "set":
            ok = any(e.get("e") == "ret" and e.get("ok") == 1 for e in op)
            if ok:
                inputs[o["i"] - 1][o["f"] - 1] = o["v"]
            continue
        we = [e["k"] for e in op if e.get("e") == "we" and kinds.get(e.get("k")) == "fb"]
        cres = {e["k"] for e in op if e.get("e") == "cres"}
        for k in we:
            if k not in cres and on_cycle(prog, inputs, int(k[1:])):
                return True
    return False


def sig_c13_leaves_cycle(job, ops):
    """F4: a cycle_result function that returned its fallback as a member of a cycle in its previous execution
    is re-executed in a later revision in which it no longer lies on any cycle (WillExecute + body end, no
    cycle_result call, not on a call-graph cycle under the current inputs) and produces a different value, but
    functions that depend on it are validated as unchanged and keep the value computed from the old fallback."""
    prog = job["prog"]
    kinds = {f"f{j + 1}": f["kind"] for j, f in enumerate(prog["fns"])}
    inputs = [[f[0] for f in inp] for inp in prog["inputs"]]
    was_member = set()
    for op in ops:
        o = op[0]
        if o.get("op") == "set":
            if any(e.get("e") == "ret" and e.get("ok") == 1 for e in op):
                inputs[o["i"] - 1][o["f"] - 1] = o["v"]
            continue
        cres = {e["k"] for e in op if e.get("e") == "cres"}
        we = [e["k"] for e in op if e.get("e") == "we" and kinds.get(e.get("k")) == "fb"]
        for k in we:
            if k in was_member and k not in cres and not on_cycle(prog, inputs, int(k[1:])):
                return True
        was_member |= cres
    return False


SIGNATURES = {
    "C13": [("fb-cycle-member-executed-without-cycle-detection", sig_c13_participant_reexecuted),
            ("fb-function-leaves-cycle-dependents-validated", sig_c13_leaves_cycle)],
}
def sig_c26_uninit_ingredient(job, ops):
    """F5: after restoring a serialized database, validating a restored memo whose dependency is a persisted
    function of a *different* tracked fn that has not been called yet in the new database panics with
    "tracked function ingredients cannot be accessed before calling `init`" (the view caster of a function
    ingredient is only initialised by a direct call)."""
    restored = False
    for op in ops:
        if op[0].get("op") == "persist":
            restored = True
        if restored and any(e.get("e") == "ret" and e.get("ok") == 0 and "cannot be accessed before calling `init`" in e.get("msg", "") for e in op):
            return True
    return False


SIGNATURES["C26"] = [("function-ingredient-not-initialised-after-restore", sig_c26_uninit_ingredient)]

def sig_c22_interrupted_stale_output_removal(job, ops):
    """F8: a panic in the event callback interrupts `diff_outputs` after at least one stale tracked struct of
    the executing query has already been deleted (DidDiscard of a `T@..` key earlier in the same operation,
    then the injected panic at an event callback). The query's old memo stays in place and still lists the
    deleted struct as an output, so every later execution of the query tries to delete (or re-create) it again
    and panics inside salsa."""
    if not job.get("inject"):
        return False
    for op in ops:
        deleted = False
        for e in op:
            if e.get("e") == "dd" and str(e.get("k", "")).startswith("T@"):
                deleted = True
            if e.get("e") == "inject" and e.get("at") == "event" and deleted:
                return True
    return False


SIGNATURES["C22"] = [("event-panic-interrupts-stale-output-removal", sig_c22_interrupted_stale_output_removal)]

def sig_c12_backdate_after_cycle(job, ops):
    """F10: the debug assertion "backdate violation" fires for a function that depends on former members of a
    fixpoint cycle: the members' `changed_at` was set conservatively while they were computed inside the cycle
    (cycle memos are never backdated); after an input write the cycle no longer forms, the members are recomputed
    with older stamps, and a dependent that produces the same value gets an older `changed_at` than before.
    Signature: the program has fixpoint functions, a cycle was finalized (DidFinalizeCycle) in an earlier
    operation, and the failing operation iterates no cycle."""
    if not any(f["kind"] in ("fix", "fixjoin") for f in job["prog"]["fns"]):
        return False
    finalized = False
    for op in ops:
        fails = any(e.get("e") == "ret" and e.get("ok") == 0 and "returned the same value, but the previous execution changed at" in e.get("msg", "") for e in op)
        if fails and finalized and not any(e.get("e") == "wic" for e in op):
            return True
        if any(e.get("e") == "dfc" for e in op):
            finalized = True
    return False


SIGNATURES["C12"] = [("backdate-assertion-for-dependents-of-former-cycle-members", sig_c12_backdate_after_cycle)]

# C18 requires the single-threaded results of C12/C13 under concurrency: the same two findings show there
SIGNATURES["C18"] = SIGNATURES["C13"] + SIGNATURES["C12"]
# the same assertion can fire in the other families that contain fixpoint functions
SIGNATURES["C14"] = SIGNATURES["C12"]
SIGNATURES["C15"] = SIGNATURES["C12"]


# signatures that identify the violation itself (its detail must carry the marker), not the whole job
DETAIL_MARKER = {"function-ingredient-not-initialised-after-restore": "cannot be accessed before calling `init`",
                 "backdate-assertion-for-dependents-of-former-cycle-members": "returned the same value, but the previous execution changed at",
                 "event-panic-interrupts-stale-output-removal": ("cannot delete write-locked id", "cannot delete read-locked id",
                                                                 "two concurrent writers to", "write lock taken")}


def classify(pid, job, job_trace_lines, detail=""):
    """Return the signature name matched by this job's trace for property pid, or None."""
    ops = op_window(job_trace_lines)
    for name, fn in SIGNATURES.get(pid, []):
        try:
            if name in DETAIL_MARKER:
                marks = DETAIL_MARKER[name]
                marks = (marks,) if isinstance(marks, str) else marks
                if not any(m in detail for m in marks):
                    continue
            if fn(job, ops):
                return name
        except Exception:
            pass
    return None
