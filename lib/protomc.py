"""Exhaustive TLC runs of the protocol-level generative specs (SyncProto, Cancel, ...)."""
import os

from common import *

MODELS = {
    "syncproto": [("sync/MC_SyncProto.tla", "sync/MC_SyncProto.cfg", "3 threads, 5-key diamond DAG, all schedules; invariants ProtoInv, AtMostOnce, NoClaimLeak; liveness Termination"),
                  ("sync/MC_SyncProto.tla", "sync/MC_SyncProtoPanic.cfg", "same with panics in two keys; waiters end with propagated panics, nothing leaks, everybody terminates")],
    "syncxfer": [("sync/SyncXfer.tla", "sync/SyncXfer.cfg", "lock transfer under a most general client: 2 threads, 3 keys, 9 steps, all interleavings of claim / block / cycle / transfer (re-rooting, transfer-target unblock, edge rewrite, block on new owner) / re-entrant claim / release; ProtoInv, ClaimsConsistent"),
                 ("sync/SyncXfer.tla", "sync/SyncXferPanic.cfg", "same with panics (whole-stack unwinding, release_panicking, propagated panics)")],
    "pagealloc": [("alloc/PageAlloc.tla", "alloc/PageAlloc.cfg", "2 handles (dropped and re-created, <=2 drops), 2 ingredients, page capacity 2, 5 allocations, all schedules; IdsDistinct, UniqueWriter, PooledNotCached, SlotsInOrder")],
    "fixpoint": [("cycle/MC_Fixpoint.tla", "cycle/MC_Fixpoint.cfg", "fixpoint iteration as implemented (provisional memos, per-head iteration stamps, nested heads, lock transfer to the outermost head, lazy finalization): ALL 2197 programs of 3 functions with <=2 callees x all orders of 2 top-level requests; every result is the least fixpoint whatever the entry point and whatever was requested before; NoBad (no implementation assertion fails, <= NF+1 iterations), FinalIsLfp, ProvBelowLfp, LocksQuiescent")],
    "cancel": [("cancel/Cancel.tla", "cancel/Cancel.cfg", "2 reader handles x 3 requests x 2 checks, 2 writes, local cancels; WriterExclusive, NoStaleProvisional, LocalOnlyOwn, TokenResetAtOutermost; liveness WriterEventuallyProceeds")],
}


def run_models(names, wd, timeout=1200):
    info = {"states": 0, "transitions": 0, "mc_models": [], "exhaustive": True}
    for name in names:
        for (spec, cfg, what) in MODELS[name]:
            twd = os.path.join(wd, "mc_" + os.path.basename(cfg).replace(".cfg", ""))
            os.makedirs(twd, exist_ok=True)
            res = run_tlc(os.path.join(SPECS, spec), os.path.join(SPECS, cfg), twd, workers=16, timeout=timeout, heap="6g", deque=False)
            if res["rc"] != 0 or "No error has been found" not in res["out"]:
                tail = "\n".join(l for l in res["out"].splitlines() if not l.startswith(("Parsing", "Semantic", "Linting")))[-3000:]
                log(tail)
                raise ToolError(f"model self-check failed for {cfg}")
            info["states"] += res.get("distinct", 0)
            info["transitions"] += res.get("generated", 0)
            info["mc_models"].append({"spec": "specs/" + spec, "config": "specs/" + cfg, "what": what,
                                      "distinct_states": res.get("distinct", 0), "states_generated": res.get("generated", 0),
                                      "wall_s": round(res["wall_s"], 1)})
    return info
