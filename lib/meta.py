"""Per-property metadata for MANIFEST.json."""

HOOK_COMMITS = ["f2e7017", "f6e5a67", "bb708cb", "141a8af", "0ae9e1c"]

PAR_NOTE = ("Trusted: TLC, Sem.tla / SyncOps.tla, the harness and the hook events (emitted under the protecting lock). "
            "Schedules on the implementation are sampled (real OS threads, seeded jitter), not enumerated; universality "
            "over schedules comes from the TLC run of the protocol model.")


def par(text, design, technique="TLA+ trace validation of multi-threaded salsa runs (ParTrace.tla + SyncTrace.tla monitors)"):
    return dict(claimed=True, engine="par-trace", level="model_checking", text=text, design_ref=design,
                note=PAR_NOTE, technique=technique)


ENGINES = [
    {"name": "edge-codec", "path": "specs/codec/EdgeCodec.tla", "serves_properties": ["C25"],
     "kind_free_text": "TLA+ specification of the stored-origin codec over boundary classes; TLC-generated cases replayed through hook H3"},
    {"name": "par-trace", "path": "specs/core/ParTrace.tla, specs/sync/SyncTrace.tla, specs/sync/SyncOps.tla",
     "serves_properties": ["C16", "C17", "C18", "C19", "C20", "C21", "C22", "C24"],
     "kind_free_text": "TLA+ monitors over traces of real threads on database clones; protocol events from hook H1 are "
                       "replayed through the SyncOps actions (guards + invariants)"},
    {"name": "generative-models", "path": "specs/core/CoreGen.tla, specs/cycle/Fixpoint.tla, specs/cycle/FixRev.tla, specs/intern/Intern.tla, "
                                          "specs/sync/SyncProto.tla, specs/sync/SyncXfer.tla, specs/cancel/Cancel.tla, specs/alloc/PageAlloc.tla",
     "serves_properties": ["C01", "C02", "C03", "C04", "C05", "C08", "C09", "C12", "C13", "C16", "C17", "C18", "C19", "C20", "C21", "C22", "C24"],
     "kind_free_text": "implementation-shaped TLA+ / PlusCal specifications model checked (or simulated) by TLC inside the checks; the "
                       "sequential ones emit every behaviour, which is replayed on real salsa and compared (values, execution "
                       "sequences, validated sets, interned handles)"},
    {"name": "core-trace", "path": "specs/core/CoreTrace.tla",
     "serves_properties": ["C01", "C02", "C03", "C04", "C05", "C06", "C07", "C08", "C09", "C10", "C11", "C12", "C13", "C14", "C15", "C23", "C26"],
     "kind_free_text": "TLA+ monitor (trace specification) over Sem.tla reference semantics, evaluated by TLC on traces "
                       "recorded from real salsa by the programs-as-data harness"},
]

NOTES = ("Model-based verification with explicit TLA+ specifications (see DESIGN.md). Every check rebuilds the harness "
         "against /repo's working tree, runs seeded drivers on real salsa, and lets TLC validate the recorded traces "
         "against the specification; VIOLATION is reported only for a false property predicate.")

SEQ_NOTE = ("Trusted: TLC, the TLA+ reference semantics (Sem.tla), the harness interpreter and its event log. "
            "Histories and programs on the implementation are sampled (seeded), bounded in size.")


def seq(text, design, technique="TLA+ trace validation (TLC monitor over recorded salsa traces) against Sem.tla"):
    return dict(claimed=True, engine="core-trace", level="model_checking", text=text, design_ref=design,
                note=SEQ_NOTE, technique=technique)


META = {
    "C01": seq("Every value returned by real salsa (top-level results, nested reads, field reads, body results) is compared "
               "by TLC with the from-scratch TLA+ semantics at every event of thousands of random incremental histories.", "§7 C01"),
    "C02": seq("Durability family: arbitrary durability changes and synthetic writes; results vs from-scratch semantics, "
               "never-change writes must panic and leave results unchanged.", "§7 C02"),
    "C03": seq("ExecJustified predicate (semantic, from logged values) evaluated by TLC at every WillExecute.", "§7 C03"),
    "C04": seq("UntrackedReexecuted predicate at every consumption of a value whose last execution was untracked.", "§7 C04"),
    "C05": seq("LRU model (request order, capacity) in the monitor; eviction observed through Drop of the cached value.", "§7 C05"),
    "C06": seq("Struct identity stability/distinctness and discard obligations in the monitor.", "§7 C06"),
    "C07": seq("Reads through struct / interned handles are compared with the from-scratch semantics; a validated memo must "
               "not depend on a reclaimed struct or interned value.", "§7 C07"),
    "C08": seq("Intern.tla (generative interner model: Canonical / HandleValid invariants by TLC, every behaviour replayed on "
               "salsa with the exact predicted handles); per-revision canonical map (value <-> handle), field round trip and "
               "identity retention in the monitor, sequentially and with concurrent interning on clones.", "§4, §7 C08",
               "TLC model checking of Intern.tla + replay of its behaviours into salsa + TLA+ trace validation (CoreTrace / ParTrace)"),
    "C09": seq("Intern.tla: reuse only of LOW, stale slots once the revision queue is primed (TLC, all programs and histories "
               "within the bounds; behaviours replayed on salsa with exact handles). At every DidReuseInternedValue the monitor's "
               "copy of the slot must be LOW, collectable, primed and stale w.r.t. the active-revision queue (hook H5).", "§4, §7 C09",
               "TLC model checking of Intern.tla + replay of its behaviours into salsa + TLA+ trace validation (CoreTrace)"),
    "C10": seq("Specified values vs the specify rules of Sem.tla; body of a validly specified key must not run.", "§7 C10"),
    "C11": seq("accumulated() results compared with AccumRef (depth-first, first-call order) of Sem.tla.", "§7 C11"),
    "C12": seq("Fixpoint.tla / FixRev.tla: implementation-shaped models of fixpoint iteration (single revision: all 2197 programs "
               "of 3 functions x all request orders; across revisions with an input, writes, deep verification, flattening, "
               "backdating: exhaustive for 2 functions, simulated for 3): every result is the least fixpoint; every behaviour is "
               "replayed on salsa (values and body-execution sequences, drift 0). Every top-level result of random programs with "
               "fixpoint cycles is compared by TLC with the Kleene least fixpoint (Sem.tla Lfp).", "§4, §5, §7 C12",
               "TLC model checking / simulation of Fixpoint.tla and FixRev.tla + replay of their behaviours into salsa + TLA+ trace validation (CoreTrace)"),
    "C13": seq("FixRev.tla with the cycle_result strategy (the model reproduces the history dependence recorded as findings F3/F4; "
               "its behaviours are replayed on salsa, drift 0). Results of random programs vs SemTableFb (members of an "
               "input-determined call-graph cycle return their fallback).", "§4, §7 C13",
               "TLC model checking / simulation of FixRev.tla (Fb) + replay into salsa + TLA+ trace validation (CoreTrace)"),
    "C14": seq("Requests whose from-scratch evaluation re-enters a function without recovery must panic with the cycle "
               "error; all other results stay from-scratch.", "§7 C14 (sequential part)"),
    "C15": seq("Programs without a fixpoint: outcome must be the iteration-limit panic (or a propagated panic in the same "
               "revision); later revisions/unrelated functions vs Sem.", "§7 C15"),
    "C16": par("Per-thread results vs single-threaded from-scratch semantics; termination (watchdog => violation); protocol "
               "events validated against SyncOps.", "§7 C16"),
    "C17": par("At most one WillExecute per key and revision across all handles.", "§7 C17"),
    "C18": par("Cross-thread fixpoint / fallback cycles: results vs Lfp / fallback semantics, termination.", "§7 C18"),
    "C19": par("The property is the set of SyncOps guards and invariants: each H1 event of each run is checked, the wait-for "
               "edges logged after a lock transfer must equal the model's, and a thread unwinding from a panic must hand Panicked "
               "to its waiters unless its own non-deferred cancellation fires.", "§7 C19"),
    "C20": par("Writer exclusion (hook H4) and PendingWrite ordering monitors, results per revision.", "§7 C20"),
    "C21": par("must-unwind / may-unwind monitors for Cancelled::Local, results of all handles.", "§7 C21"),
    "C22": dict(par("Crash-point enumeration: one run per user callback of each base history with a panic injected there; the "
                    "monitors check that the panic reaches the caller, waiters are released, and every later result is "
                    "from-scratch; FixRev.tla with user panics (unwinding, poisoned memos, propagated panics, recovery in "
                    "later revisions) is model checked and its behaviours are replayed on salsa.", "§4, §7 C22",
                    "fault enumeration + TLC model checking of FixRev.tla (panics) with replay + TLA+ trace validation (CoreTrace / ParTrace / SyncTrace)"),
                level="fault_enumeration", engine="core-trace"),
    "C25": dict(claimed=True, engine="edge-codec", level="model_checking",
                text="TLC enumerates every edge sequence over boundary classes with the specification's predicted decoding; each case "
                     "is replayed on the real private codec (hook H3) on the default and the persistence build.",
                design_ref="§4.6, §7 C25", note="The model works over boundary classes of the 12+20-bit packing, not over all 32-bit words.",
                technique="TLA+ specification (EdgeCodec.tla) enumerated by TLC, cases replayed into the implementation"),
    "C24": par("PageAlloc.tla model-checked for all schedules (distinct ids, one writer per page); real threads creating inputs, "
               "interned values and tracked structs concurrently, every identity checked by the ParTrace monitor.", "§4.6, §7 C24"),
    "C26": seq("Histories with serialize (serde_json) -> drop -> deserialize into a fresh database; every result vs the from-scratch "
               "semantics, restored persisted memos must be reused unless something they read changed (ExecJustified).", "§7 C26"),
    "C23": dict(seq("Value-lifetime discipline only (no raw-memory claims): no drop while a reference of the same revision "
                    "is held, retained references keep their value, no double drop, nothing leaked at database drop.",
                    "§7 C23, §8"), level="exploration"),
}
