#![cfg(feature = "inventory")]
//! A function whose value was specified by another query in an earlier revision and that is computed
//! by its own body later (to the same value, from older inputs) must not trip the backdate assertion.

use salsa::{Database, Setter};

#[salsa::input]
struct Input {
    #[returns(copy)]
    specify: bool,
    #[returns(copy)]
    other: u32,
}

#[salsa::tracked]
struct Tracked<'db> {
    #[returns(copy)]
    field: u32,
}

#[salsa::tracked(returns(copy), specify)]
fn specified<'db>(db: &'db dyn Database, t: Tracked<'db>) -> u32 {
    t.field(db)
}

#[salsa::tracked(returns(copy))]
fn make(db: &dyn Database, input: Input) -> u32 {
    let t = Tracked::new(db, 7);
    if input.specify(db) {
        specified::specify(db, t, 7);
    }
    specified(db, t)
}

#[test]
fn specified_then_derived_with_the_same_value() {
    let mut db = salsa::DatabaseImpl::new();
    let input = Input::new(&db, false, 0);
    assert_eq!(make(&db, input), 7);

    // a few revisions later the value is specified (assigned at that revision) ...
    input.set_other(&mut db).to(1);
    input.set_other(&mut db).to(2);
    input.set_specify(&mut db).to(true);
    assert_eq!(make(&db, input), 7);

    // ... and then derived again from the struct field, which has not changed since the first revision
    input.set_specify(&mut db).to(false);
    assert_eq!(make(&db, input), 7);
}
