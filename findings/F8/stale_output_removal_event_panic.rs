#![cfg(feature = "inventory")]
//! KNOWN FINDING F8 (fails on the current code): a panic in the event callback that interrupts the removal
//! of stale outputs after one stale tracked struct has already been deleted poisons the creating query.

use std::panic::{AssertUnwindSafe, catch_unwind};
use std::sync::Arc;
use std::sync::atomic::{AtomicBool, AtomicUsize, Ordering};

use salsa::{Database, Setter, Storage};

#[salsa::db]
struct TestDatabase {
    storage: Storage<Self>,
    armed: Arc<AtomicBool>,
}

impl TestDatabase {
    fn new() -> Self {
        let armed = Arc::new(AtomicBool::new(false));
        let stale = Arc::new(AtomicUsize::new(0));
        Self {
            armed: armed.clone(),
            storage: Storage::new(Some(Box::new(move |event| {
                if matches!(event.kind, salsa::EventKind::WillDiscardStaleOutput { .. })
                    && armed.load(Ordering::SeqCst)
                    // the first stale output is removed, the callback panics at the second
                    && stale.fetch_add(1, Ordering::SeqCst) == 1
                {
                    armed.store(false, Ordering::SeqCst);
                    panic!("event callback panic");
                }
            }))),
        }
    }
}

#[salsa::db]
impl Database for TestDatabase {}

#[salsa::input]
struct Input {
    #[returns(copy)]
    value: u32,
}

#[salsa::tracked]
struct Tracked<'db> {
    #[returns(copy)]
    field: u32,
}

#[salsa::tracked(returns(copy))]
fn make(db: &dyn Database, input: Input) -> u32 {
    if input.value(db) == 0 {
        let a = Tracked::new(db, 1);
        let b = Tracked::new(db, 2);
        a.field(db) + b.field(db)
    } else {
        0
    }
}

#[test]
fn event_panic_between_two_stale_output_removals_does_not_poison_the_query() {
    let mut db = TestDatabase::new();
    let input = Input::new(&db, 0);
    assert_eq!(make(&db, input), 3);

    input.set_value(&mut db).to(1);
    db.armed.store(true, Ordering::SeqCst);
    let result = catch_unwind(AssertUnwindSafe(|| make(&db, input)));
    assert!(result.is_err(), "the callback panic reaches the caller");

    // The panic no longer occurs: the same request must succeed.
    assert_eq!(make(&db, input), 0);
}
