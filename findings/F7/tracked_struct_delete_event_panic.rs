#![cfg(feature = "inventory")]
//! A panic in the event callback while a stale tracked struct is being deleted (`DidDiscard` of a
//! function memoized on it) must not leave the struct write-locked forever.

use std::panic::{AssertUnwindSafe, catch_unwind};
use std::sync::Arc;
use std::sync::atomic::{AtomicBool, AtomicUsize, Ordering};

use salsa::{Database, Setter, Storage};

#[salsa::db]
struct TestDatabase {
    storage: Storage<Self>,
    armed: Arc<AtomicBool>,
}

impl TestDatabase {
    fn new() -> Self {
        let armed = Arc::new(AtomicBool::new(false));
        let discards = Arc::new(AtomicUsize::new(0));
        Self {
            armed: armed.clone(),
            storage: Storage::new(Some(Box::new(move |event| {
                if matches!(event.kind, salsa::EventKind::DidDiscard { .. })
                    && armed.load(Ordering::SeqCst)
                    // the first discard is the struct itself, the second the function memoized on it
                    && discards.fetch_add(1, Ordering::SeqCst) == 1
                {
                    armed.store(false, Ordering::SeqCst);
                    panic!("event callback panic");
                }
            }))),
        }
    }
}

#[salsa::db]
impl Database for TestDatabase {}

#[salsa::input]
struct Input {
    #[returns(copy)]
    value: u32,
}

#[salsa::tracked]
struct Tracked<'db> {
    #[returns(copy)]
    field: u32,
}

#[salsa::tracked(returns(copy))]
fn on_struct<'db>(db: &'db dyn Database, t: Tracked<'db>) -> u32 {
    t.field(db) + 1
}

#[salsa::tracked(returns(copy))]
fn make(db: &dyn Database, input: Input) -> u32 {
    if input.value(db) == 0 {
        let t = Tracked::new(db, 7);
        on_struct(db, t)
    } else {
        0
    }
}

#[test]
fn event_panic_while_deleting_a_stale_struct_does_not_poison_it() {
    let mut db = TestDatabase::new();
    let input = Input::new(&db, 0);
    assert_eq!(make(&db, input), 8);

    // `make` no longer creates the struct: it is deleted, and the event callback panics half way.
    input.set_value(&mut db).to(1);
    db.armed.store(true, Ordering::SeqCst);
    let result = catch_unwind(AssertUnwindSafe(|| make(&db, input)));
    assert!(result.is_err(), "the callback panic reaches the caller");

    // The panic no longer occurs: the same request succeeds.
    assert_eq!(make(&db, input), 0);

    input.set_value(&mut db).to(0);
    assert_eq!(make(&db, input), 8);
}
