//! A panic in user code while the fields of a re-created tracked struct are updated
//! (here: a `PartialEq` implementation used by `Update`) must not leave the struct write-locked.

use std::sync::atomic::{AtomicBool, Ordering};

use salsa::{Database, Setter};

static PANIC_IN_EQ: AtomicBool = AtomicBool::new(false);

#[derive(Clone, Debug, Hash)]
struct Field(u32);

impl PartialEq for Field {
    fn eq(&self, other: &Self) -> bool {
        if PANIC_IN_EQ.load(Ordering::SeqCst) {
            panic!("user PartialEq panics");
        }
        self.0 == other.0
    }
}

impl Eq for Field {}

#[salsa::input]
struct Input {
    value: u32,
}

#[salsa::tracked]
struct Tracked<'db> {
    #[tracked]
    field: Field,
}

#[salsa::tracked]
fn make<'db>(db: &'db dyn Database, input: Input) -> Tracked<'db> {
    Tracked::new(db, Field(*input.value(db)))
}

#[salsa::tracked]
fn read<'db>(db: &'db dyn Database, input: Input) -> u32 {
    make(db, input).field(db).0
}

#[test]
fn panic_while_updating_tracked_struct_fields_does_not_poison_the_struct() {
    let mut db = salsa::DatabaseImpl::new();
    let input = Input::new(&db, 1);
    assert_eq!(*read(&db, input), 1);

    input.set_value(&mut db).to(2);
    PANIC_IN_EQ.store(true, Ordering::SeqCst);
    let result = std::panic::catch_unwind(std::panic::AssertUnwindSafe(|| read(&db, input)));
    assert!(result.is_err(), "the user panic reaches the caller");

    // The panic no longer occurs: the same request must now succeed.
    PANIC_IN_EQ.store(false, Ordering::SeqCst);
    assert_eq!(*read(&db, input), 2);

    input.set_value(&mut db).to(3);
    assert_eq!(*read(&db, input), 3);
}
