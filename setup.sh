#!/bin/sh
# Build the conformance harness (all variants) offline from files on disk only.
set -e
cd "$(dirname "$0")/harness"
export CARGO_NET_OFFLINE=true
cargo build --offline --no-default-features --features hooks --target-dir target
cargo build --offline --no-default-features --features hooks,persistence --target-dir target-persist
mkdir -p ../work ../evidence
echo setup-ok
