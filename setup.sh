#!/bin/sh
# Build the conformance harness (all variants) offline from files on disk only.
set -e
cd "$(dirname "$0")/harness"
export CARGO_NET_OFFLINE=true
cargo build --offline --no-default-features --features hooks --target-dir target
mkdir -p ../work ../evidence
echo setup-ok
