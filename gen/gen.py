#!/usr/bin/env python3
"""Program and history generators (programs-as-data, see harness/src/types.rs).

Everything is seeded; value domains are deliberately tiny so that equal values, backdating,
slot reuse and durability interplay are frequent.
"""
import json
import random
import sys


def node(op, a=0, b=0, c=0, kids=None):
    return {"op": op, "a": a, "b": b, "c": c, "kids": kids or []}


class Tree:
    """Builds a flattened decision tree (1-based node indices, root = 1)."""

    def __init__(self):
        self.nodes = []

    def add(self, n):
        self.nodes.append(n)
        return len(self.nodes)


def build(rng, spec, depth, tr, ctx):
    """Recursively build a subtree, returns its node index.

    spec: dict with generation parameters
      nv, nin, ncell, callees (list of fn indices this body may call), p_leaf,
      ops: list of op names allowed
    ctx: dict tracking handles acquired so far on this path: nh (struct handles), ni (interned)
    """
    nv = spec["nv"]
    # reserve index first so that the root is node 1 (pre-order numbering)
    idx = tr.add(None)
    ops = list(spec["ops"])
    if depth <= 0 or rng.random() < spec.get("p_leaf", 0.25):
        tr.nodes[idx - 1] = node("ret", rng.randrange(nv))
        return idx
    # filter ops that need resources
    if not spec["callees"]:
        ops = [o for o in ops if o not in ("call",)]
    if ctx["nh"] == 0:
        ops = [o for o in ops if o not in ("fld", "calls", "spec")]
    if ctx["ni"] == 0:
        ops = [o for o in ops if o not in ("rdint", "calli")]
    if spec.get("ncell", 0) == 0:
        ops = [o for o in ops if o != "cell"]
    if not ops:
        tr.nodes[idx - 1] = node("ret", rng.randrange(nv))
        return idx
    op = rng.choice(ops)
    if op == "in":
        i = rng.randrange(spec["nin"]) + 1
        f = rng.randrange(2) + 1
        kids = [build(rng, spec, depth - 1, tr, dict(ctx)) for _ in range(nv)]
        tr.nodes[idx - 1] = node("in", i, f, 0, kids)
    elif op == "cell":
        k = rng.randrange(spec["ncell"]) + 1
        kids = [build(rng, spec, depth - 1, tr, dict(ctx)) for _ in range(nv)]
        tr.nodes[idx - 1] = node("cell", k, 0, 0, kids)
    elif op == "untr":
        kids = [build(rng, spec, depth - 1, tr, dict(ctx))]
        tr.nodes[idx - 1] = node("untr", 0, 0, 0, kids)
    elif op == "call":
        g = rng.choice(spec["callees"])
        c2 = dict(ctx)
        c2["nh"] += spec.get("exports", {}).get(g, 0)
        kids = [build(rng, spec, depth - 1, tr, dict(c2)) for _ in range(nv)]
        tr.nodes[idx - 1] = node("call", g, 0, 0, kids)
    elif op == "new":
        c2 = dict(ctx)
        c2["nh"] += 1
        c2["own"] = c2.get("own", []) + [c2["nh"]]
        kids = [build(rng, spec, depth - 1, tr, c2)]
        tr.nodes[idx - 1] = node("new", spec.get("identbase", 0) + rng.randrange(spec.get("nident", 2)), rng.randrange(nv), rng.randrange(nv), kids)
    elif op == "fld":
        slot = rng.randrange(ctx["nh"]) + 1
        fld = rng.randrange(3)
        nk = spec.get("nident", 2) if fld == 0 else nv
        kids = [build(rng, spec, depth - 1, tr, dict(ctx)) for _ in range(max(nk, nv))]
        tr.nodes[idx - 1] = node("fld", slot, fld, 0, kids)
    elif op == "calls":
        slot = rng.randrange(ctx["nh"]) + 1
        m = rng.choice(spec.get("sfams", [1]))
        kids = [build(rng, spec, depth - 1, tr, dict(ctx)) for _ in range(nv)]
        tr.nodes[idx - 1] = node("calls", m, slot, 0, kids)
    elif op == "spec":
        own = [s for s in ctx.get("own", []) if s not in ctx.get("specd", [])]
        if not own:
            tr.nodes[idx - 1] = node("ret", rng.randrange(nv))
            return idx
        slot = rng.choice(own)
        c2 = dict(ctx)
        c2["specd"] = c2.get("specd", []) + [slot]
        if rng.random() < spec.get("p_call_before_spec", 0):
            # the creator first computes the specifiable function on the new struct, then specifies it
            # (the computed value wins this revision)
            sidx = tr.add(None)
            kids = [build(rng, spec, depth - 1, tr, c2)]
            tr.nodes[sidx - 1] = node("spec", slot, rng.randrange(nv), 0, kids)
            tr.nodes[idx - 1] = node("calls", 3, slot, 0, [sidx] * nv)
            return idx
        kids = [build(rng, spec, depth - 1, tr, c2)]
        tr.nodes[idx - 1] = node("spec", slot, rng.randrange(nv), 0, kids)
    elif op == "intern":
        c2 = dict(ctx)
        c2["ni"] += 1
        kids = [build(rng, spec, depth - 1, tr, c2)]
        tr.nodes[idx - 1] = node("intern", rng.choice(spec.get("ikinds", [1, 2, 3, 4])), rng.randrange(spec.get("nint", 3)), 0, kids)
    elif op == "rdint":
        slot = rng.randrange(ctx["ni"]) + 1
        kids = [build(rng, spec, depth - 1, tr, dict(ctx)) for _ in range(max(nv, spec.get("nint", 3)))]
        tr.nodes[idx - 1] = node("rdint", slot, 0, 0, kids)
    elif op == "calli":
        slot = rng.randrange(ctx["ni"]) + 1
        kids = [build(rng, spec, depth - 1, tr, dict(ctx)) for _ in range(nv)]
        tr.nodes[idx - 1] = node("calli", slot, 0, 0, kids)
    elif op == "acc":
        kids = [build(rng, spec, depth - 1, tr, dict(ctx))]
        tr.nodes[idx - 1] = node("acc", rng.randrange(4), 0, 0, kids)
    else:
        raise ValueError(op)
    return idx


def max_exports(nodes):
    """Upper bound on the number of structs a body creates on any path."""
    def go(n):
        nd = nodes[n - 1]
        own = 1 if nd["op"] == "new" else 0
        return own + max([go(k) for k in nd["kids"]] or [0])
    return go(1)


def gen_program(rng, family="core", nfn=None):
    nv = 2
    nin = rng.choice([1, 2])
    ncell = 1 if family in ("untracked", "mixed") or (family == "core" and rng.random() < 0.3) else 0
    if family == "untracked":
        ncell = rng.choice([1, 2])
    nfn = nfn or rng.choice([2, 3, 4, 5])
    durs = {
        "core": [0, 0, 0, 1, 2],
        "dur": [0, 1, 2, 2, 3],
        "structdur": [0, 1, 2, 2, 2],
        "churn": [0],
    }.get(family, [0, 0, 1, 2])
    inputs = [[[rng.randrange(nv), rng.choice(durs)], [rng.randrange(nv), rng.choice(durs)]] for _ in range(nin)]
    kinds_pool = {
        "core": ["plain", "plain", "plain", "noeq", "q2"],
        "dur": ["plain", "plain", "noeq", "q2"],
        "untracked": ["plain", "plain", "noeq"],
        "lru": ["lru", "lru", "plain"],
        "struct": ["plain", "plain", "q2"],
        "structlru": ["lru", "lru", "plain"],
        "structcoll": ["plain", "plain", "q2"],
        "structdur": ["plain", "plain", "q2"],
        "spec": ["plain"],
        "intern": ["plain", "plain"],
        "accum": ["plain", "plain", "noeq", "q2"],
        "accumlru": ["lru", "plain", "lru", "noeq"],
        "churn": ["plain", "plain", "q2"],
        "mixed": ["plain", "noeq", "lru", "q2"],
        "persist": ["pplain", "pplain", "pnp", "pnoeq"],
    }[family]
    base_ops = {
        "core": ["in", "in", "call", "call", "cell"],
        "dur": ["in", "in", "call", "call"],
        "untracked": ["in", "call", "call", "cell", "cell", "untr"],
        "lru": ["in", "in", "call", "call"],
        "struct": ["in", "in", "call", "new", "new", "fld", "fld", "calls", "untr"],
        "structlru": ["in", "in", "call", "new", "new", "fld", "fld", "calls"],
        "structcoll": ["in", "in", "in", "call", "new", "new", "new", "fld", "calls"],
        "structdur": ["in", "in", "in", "call", "new", "new", "fld", "fld", "calls"],
        "spec": ["in", "in", "call", "new", "new", "fld", "calls", "spec", "spec"],
        "intern": ["in", "in", "call", "intern", "intern", "rdint", "calli"],
        "accum": ["in", "in", "call", "call", "acc", "acc"],
        "accumlru": ["in", "in", "call", "call", "acc", "acc"],
        "churn": ["in", "in", "in", "call", "call", "intern", "intern", "intern", "rdint", "calli", "new", "fld"],
        "mixed": ["in", "in", "call", "call", "cell", "new", "fld", "calls", "intern", "rdint", "acc", "untr", "spec", "calli"],
        "persist": ["in", "in", "call", "call"],
    }[family]
    fns = [None] * nfn
    exports = {}
    have_q0 = False
    # build from the last function backwards so that callee export counts are known
    for j in range(nfn, 0, -1):
        kind = rng.choice(kinds_pool)
        if family in ("core", "mixed") and not have_q0 and rng.random() < 0.15:
            kind = "q0"
            have_q0 = True
        callees = list(range(j + 1, nfn + 1))
        ops_j = base_ops
        if family in ("accum", "accumlru") and callees and rng.random() < 0.6:
            callees = [j + 1]          # chains: root -> mid -> leaf
        if family in ("accum", "accumlru"):
            # upper functions mostly call, the lowest ones accumulate depending on inputs
            ops_j = ["in", "call", "call", "call", "acc"] if j < nfn - 1 else ["in", "in", "acc", "acc"]
            if rng.random() < 0.5 and j < nfn - 1:
                ops_j = ["in", "call", "call", "call"]
        spec = {
            "nv": nv, "nin": nin, "ncell": ncell, "callees": callees, "ops": ops_j,
            "p_leaf": 0.2, "exports": exports,
            "sfams": [3, 3, 1] if family == "spec" else ([1, 2, 3] if family == "mixed" else [1, 2]),
            "ikinds": [1, 1, 2, 3, 4] if family == "intern" else ([1, 1, 1, 1, 2, 2] if family == "churn" else [1, 2, 3, 4]),
            "nint": 5 if family == "churn" else 3,
            "nident": 3 if family in ("churn", "structcoll") else 2,
            "identbase": 10 if family == "structcoll" else 0,
            "p_call_before_spec": 0.3 if family == "spec" else 0,
        }
        tr = Tree()
        if family == "churn":
            # root: an input read, so that everything interned/created below is LOW-durable (reclaimable)
            root = tr.add(None)
            kids = [build(rng, spec, rng.choice([2, 3, 3]), tr, {"nh": 0, "ni": 0}) for _ in range(nv)]
            tr.nodes[root - 1] = node("in", rng.randrange(nin) + 1, rng.randrange(2) + 1, 0, kids)
        else:
            build(rng, spec, rng.choice([2, 3, 3, 4]), tr, {"nh": 0, "ni": 0})
        if family in ("accum", "accumlru") and rng.random() < 0.5:
            # equal results on every path: re-executions are backdated, only the accumulated values differ
            for nd in tr.nodes:
                if nd["op"] == "ret":
                    nd["a"] = 0
        fwd = 1 if family in ("struct", "churn", "intern", "mixed") and rng.random() < (0.6 if family == "churn" else 0.35) else 0
        fns[j - 1] = {"kind": kind, "init": 0, "fwd": fwd, "nodes": tr.nodes}
        exports[j] = max_exports(tr.nodes) + (sum(exports.get(g, 0) for g in callees) if fwd else 0)
    sfns = []
    for m in (1, 2, 3):
        spec = {"nv": nv, "nin": nin, "ncell": 0, "callees": [], "p_leaf": 0.3,
                "ops": ["in", "fld", "fld", "untr"] if family == "spec" else ["in", "fld", "fld"]}
        tr = Tree()
        if family == "spec" and m == 3 and rng.random() < 0.4:
            # the specifiable function's own body starts with an untracked read
            root = tr.add(None)
            tr.nodes[root - 1] = node("untr", 0, 0, 0, [build(rng, spec, 2, tr, {"nh": 1, "ni": 0})])
        else:
            build(rng, spec, 2, tr, {"nh": 1, "ni": 0})
        sfns.append({"kind": "sspec" if m == 3 else "splain", "init": 0, "nodes": tr.nodes})
    ifns = []
    spec = {"nv": nv, "nin": nin, "ncell": 0, "callees": [], "ops": ["in", "rdint", "rdint"], "p_leaf": 0.3, "nint": 3}
    tr = Tree()
    build(rng, spec, 2, tr, {"nh": 0, "ni": 1})
    ifns.append({"kind": "iplain", "init": 0, "nodes": tr.nodes})
    return {
        "nv": nv, "inputs": inputs, "cells": [rng.randrange(nv) for _ in range(ncell)],
        "fns": fns, "sfns": sfns, "ifns": ifns,
        "lru_cap": rng.choice([1, 2, 2, 3]) if family in ("lru", "mixed") else (rng.choice([0, 1, 1, 2]) if family in ("structlru", "accumlru") else 2),
    }


def chain_body(rng, steps):
    """Cycle-family body: a chain of steps ending in `retr`.

    steps: list of ("orc", const) | ("orcall", g, mask) | ("cond", i, f, g, mask)  (call g only when input i.f = 1)
    Branches rejoin: both kids of an `in` node lead to the same continuation.
    """
    nodes = []

    def add(n):
        nodes.append(n)
        return len(nodes)

    # build backwards so continuations are known
    nxt = None
    built = []
    # first pass: allocate in forward order for readability
    plan = []
    for st in steps:
        if st[0] == "cond":
            plan.append(("in", st))
            plan.append(("condcall", st))
        elif st[0] == "condelse":
            # if input = 1 then call g else r |= c   (so that values can also shrink when the input flips)
            plan.append(("in2", st))
            plan.append(("elseconst", st))
            plan.append(("condcall", st))
        elif st[0] == "fldcond":
            # read tracked field st[2] of the struct created by function st[1]; if it is 1, r |= st[3]
            plan.append(("callc", st))
            plan.append(("fldr", st))
            plan.append(("fldconst", st))
        else:
            plan.append((st[0], st))
    plan.append(("retr", None))
    idx = {n: n + 1 for n in range(len(plan))}
    for n, (kind, st) in enumerate(plan):
        nx = idx.get(n + 1)
        if kind == "orc":
            nodes.append(node("orc", st[1], 0, 0, [nx]))
        elif kind == "orcall":
            nodes.append(node("orcall", st[1], st[2], 0, [nx]))
        elif kind == "in":
            # value 0 -> skip the call (continuation after the conditional call), 1 -> the call
            nodes.append(node("in", st[1], st[2], 0, [idx[n + 2], idx[n + 1]]))
        elif kind == "in2":
            # value 0 -> the constant (next node), 1 -> the call (the node after it)
            nodes.append(node("in", st[1], st[2], 0, [idx[n + 1], idx[n + 2]]))
        elif kind == "elseconst":
            # continue after the call node
            nodes.append(node("orc", st[5], 0, 0, [idx[n + 2]]))
        elif kind == "condcall":
            nodes.append(node("orcall", st[3], st[4], 0, [nx]))
        elif kind == "callc":
            nodes.append(node("call", st[1], 0, 0, [nx, nx]))
        elif kind == "fldr":
            # field value 0 -> continue after the constant, 1 -> the constant
            nodes.append(node("fld", 1, st[2], 0, [idx[n + 2], idx[n + 1]]))
        elif kind == "fldconst":
            nodes.append(node("orc", st[3], 0, 0, [nx]))
        elif kind == "retr":
            nodes.append(node("retr"))
    return nodes


def _edges_under(prog, inputs, j):
    nodes = prog["fns"][j - 1]["nodes"]
    out, n, steps = [], 1, 0
    while steps < 200:
        steps += 1
        nd = nodes[n - 1]
        if nd["op"] in ("ret", "retr"):
            break
        if nd["op"] == "in":
            v = inputs[nd["a"] - 1][nd["b"] - 1]
            n = nd["kids"][min(v, len(nd["kids"]) - 1)]
        elif nd["op"] in ("orcall", "call"):
            out.append(nd["a"])
            n = nd["kids"][0]
        else:
            n = nd["kids"][0]
    return out


def _cycle_members(prog, inputs):
    nfn = len(prog["fns"])
    adj = {j: set(_edges_under(prog, inputs, j)) for j in range(1, nfn + 1)}
    mem = set()
    for j in adj:
        seen, todo = set(), list(adj[j])
        while todo:
            g = todo.pop()
            if g == j:
                mem.add(j)
                break
            if g in seen:
                continue
            seen.add(g)
            todo += list(adj.get(g, ()))
    return frozenset(mem)


def cycle_shape_changes(prog):
    """True if flipping one input bit changes which functions lie on a cycle (a function joins or leaves a
    cycle, a cycle appears or disappears) - the incremental situations the cycle machinery must get right."""
    nin = len(prog["inputs"])
    import itertools
    seen = {}
    for bits in itertools.product([0, 1], repeat=2 * nin):
        inputs = [[bits[2 * i], bits[2 * i + 1]] for i in range(nin)]
        seen[bits] = _cycle_members(prog, inputs)
    for bits, mem in seen.items():
        for k in range(len(bits)):
            b2 = list(bits)
            b2[k] ^= 1
            m2 = seen[tuple(b2)]
            if m2 != mem and mem and m2:
                return True
    return False


def gen_fixshape_program(rng, kind="fix"):
    """Template family: a ring of cycle functions plus a function that joins / leaves the cycle when an input bit
    flips (conditional edge from a ring member, placed before or after its ring edge)."""
    n = rng.choice([3, 3, 4])
    k = rng.choice([2, n - 1]) if n > 3 else 2
    nodesets = []
    full = 15
    steps = {j: [("orc", 1 << (j - 1))] for j in range(1, n + 1)}
    for j in range(1, k + 1):
        steps[j].append(("orcall", j % k + 1, full))
    for j in range(k + 1, n + 1):
        # joiners call into the ring (and maybe each other)
        steps[j].append(("orcall", rng.randrange(k) + 1, full))
        if rng.random() < 0.3 and j < n:
            steps[j].append(("orcall", j + 1, full))
    # conditional edges from ring members to joiners
    for _ in range(rng.choice([1, 1, 2])):
        src = rng.randrange(k) + 1
        dst = rng.randrange(k + 1, n + 1)
        f = rng.randrange(2) + 1
        pos = rng.randrange(1, len(steps[src]) + 1)
        if rng.random() < 0.6:
            steps[src].insert(pos, ("condelse", 1, f, dst, full, rng.choice([1 << (n - 1), 1 << rng.randrange(4), 3])))
        else:
            steps[src].insert(pos, ("cond", 1, f, dst, full))
    if rng.random() < 0.4:
        j = rng.randrange(n) + 1
        steps[j].insert(rng.randrange(1, len(steps[j]) + 1), ("cond", 1, rng.randrange(2) + 1, rng.randrange(n) + 1, rng.choice([full, 5, 10])))
    fns = []
    for j in range(1, n + 1):
        kd = "fb" if kind == "fb" else rng.choice(["fix", "fix", "fix", "fixjoin"])
        fns.append({"kind": kd, "init": 0 if kind == "fix" else rng.randrange(16), "fwd": 0, "nodes": chain_body(rng, steps[j])})
    if rng.random() < 0.5:
        fns.append({"kind": "plain", "init": 0, "fwd": 0, "nodes": chain_body(rng, [("orcall", rng.randrange(n) + 1, full)])})
    return {"nv": 16, "inputs": [[[rng.randrange(2), 0], [rng.randrange(2), rng.choice([0, 0, 2])]]], "cells": [],
            "fns": fns, "sfns": [], "ifns": [], "lru_cap": 2}


def gen_fixshape_history(rng, prog, nops):
    nfn = len(prog["fns"])
    hist = []
    for _ in range(nops):
        r = rng.random()
        if r < 0.3:
            hist.append({"op": "set", "i": 1, "f": rng.randrange(2) + 1, "v": rng.randrange(2), "d": -1})
        elif r < 0.34:
            hist.append({"op": "synth", "d": rng.choice([0, 2])})
        else:
            hist.append({"op": "get", "f": rng.randrange(nfn) + 1})
    return hist


def gen_fixstruct_program(rng):
    """C12 x tracked structs: members of fixpoint cycles read tracked fields of a struct created by a plain
    function from an input; the field changes across revisions while the struct keeps its identity."""
    prog = gen_cycle_program1(rng, "fix")
    nin = len(prog["inputs"])
    n = len(prog["fns"])
    creator = n + 1
    ci, cf = rng.randrange(nin) + 1, rng.randrange(2) + 1
    fldn = rng.choice([1, 2])
    def mk(v):
        return node("new", 0, v if fldn == 1 else 0, v if fldn == 2 else 0, [])
    cn = [node("in", ci, cf, 0, [2, 4]), dict(mk(0), kids=[3]), node("ret", 0), dict(mk(1), kids=[5]), node("ret", 0)]
    full = prog["nv"] - 1
    for j, f in enumerate(prog["fns"], 1):
        if f["kind"] in ("fix", "fixjoin") and rng.random() < 0.6:
            # rebuild the body with a field read in front (steps are not kept: prepend nodes and shift indices)
            pre = [node("call", creator, 0, 0, [2, 2]), node("fld", 1, fldn, 0, [4, 3]), node("orc", rng.randrange(1, full + 1), 0, 0, [4])]
            body = []
            for nd in f["nodes"]:
                nd2 = dict(nd)
                nd2["kids"] = [k + 3 for k in nd["kids"]]
                body.append(nd2)
            f["nodes"] = pre + body
    prog["fns"].append({"kind": "plain", "init": 0, "fwd": 1, "nodes": cn})
    return prog


def gen_nested_fix_program(rng, ncons=0, nleaf=0):
    """Nested fixpoint cycles for C20 / C21: an outer head that keeps requesting functions after an inner head
    (which depends on itself and on the outer head) has completed with a provisional memo; optionally below
    plain consumers that request further tracked functions after the cycle has completed."""
    nin = 1
    inputs = [[[rng.randrange(2), 0], [rng.randrange(2), 0]]]
    full = 7
    n = rng.choice([2, 3, 3, 4])
    o = ncons                 # index offset of the cycle members
    fns = []
    for c in range(1, ncons + 1):
        steps = [("orcall", o + 1 if rng.random() < 0.7 else o + rng.randrange(1, n + 1), full)]
        for _ in range(rng.choice([1, 2, 3])):
            g = rng.randrange(c + 1, o + n + 1) if c < ncons else o + rng.randrange(1, n + 1)
            steps.append(rng.choice([("orcall", g, full), ("orcall", g, full), ("cond", 1, rng.randrange(2) + 1, g, full)]))
        fns.append({"kind": rng.choice(["plain", "plain", "noeq"]), "init": 0, "fwd": 0, "nodes": chain_body(rng, steps)})
    for j in range(1, n + 1):
        steps = [("orc", rng.randrange(full + 1))]
        if j == 1:
            steps.append(("orcall", o + 2, rng.choice([full, full, 3, 5, 6])))
            for _ in range(rng.choice([1, 2, 3])):
                g = o + rng.randrange(2, n + 1)
                steps.append(rng.choice([("orcall", g, full), ("cond", 1, rng.randrange(2) + 1, g, full), ("orc", rng.randrange(full + 1))]))
            steps.append(("orcall", o + rng.randrange(2, n + 1), full))
        else:
            steps.append(("orcall", o + j, rng.choice([full, 3, 5, 6])))                 # self: an inner head
            steps.append(("orcall", o + rng.randrange(1, j), full))                      # and an outer head
            if rng.random() < 0.5:
                steps.append(("orcall", o + rng.randrange(1, n + 1), rng.choice([full, 3, 6])))
        if nleaf:
            # plain leaves executed inside the fixpoint queries (C19: claims released while cancellation is deferred)
            steps.insert(rng.randrange(1, len(steps) + 1), ("orcall", o + n + rng.randrange(1, nleaf + 1), full))
        fns.append({"kind": rng.choice(["fix", "fix", "fixjoin"]), "init": 0, "fwd": 0, "nodes": chain_body(rng, steps)})
    for _ in range(nleaf):
        steps = [("orc", rng.randrange(full + 1)), ("condelse", 1, rng.randrange(2) + 1, len(fns) + 1, 0, rng.randrange(full + 1))]
        # (the conditional call is a masked-out self reference that is never taken: mask 0 and input-dependent constant)
        i, f = 1, rng.randrange(2) + 1
        c0, c1 = rng.randrange(full + 1), rng.randrange(full + 1)
        nodes = [node("in", i, f, 0, [2, 3]), node("orc", c0, 0, 0, [4]), node("orc", c1, 0, 0, [4]), node("retr")]
        fns.append({"kind": "plain", "init": 0, "fwd": 0, "nodes": nodes})
    return {"nv": full + 1, "inputs": inputs, "cells": [], "fns": fns, "sfns": [], "ifns": [], "lru_cap": 2}


def gen_parlru_program(rng):
    """C16 with eviction: two or three plain consumers share an `lru` function above an input-reading leaf;
    further `lru` functions push its value out of the (capacity 1-2) LRU between rounds."""
    nv = 2
    inputs = [[[rng.randrange(2), 0], [rng.randrange(2), 0]]]
    ntop = rng.choice([2, 2, 3])
    nother = rng.choice([1, 2])
    mid = ntop + 1
    leaf = ntop + 2
    fns = []
    for _ in range(ntop):
        # consumer: value of mid decides the result (possibly combined with an input)
        if rng.random() < 0.5:
            nodes = [node("call", mid, 0, 0, [2, 3]), node("ret", 0), node("ret", 1)]
        else:
            nodes = [node("call", mid, 0, 0, [2, 3]), node("in", 1, 2, 0, [4, 5]), node("ret", 1), node("ret", 0), node("ret", 1)]
        fns.append({"kind": rng.choice(["plain", "plain", "noeq"]), "init": 0, "fwd": 0, "nodes": nodes})
    fns.append({"kind": "lru", "init": 0, "fwd": 0, "nodes": [node("call", leaf, 0, 0, [2, 3]), node("ret", 0), node("ret", 1)]})
    fns.append({"kind": "plain", "init": 0, "fwd": 0,
                "nodes": [node("in", 1, 1, 0, [2, 3]), node("in", 1, 2, 0, [4, 5]), node("ret", 1), node("ret", 0), node("ret", 1)]})
    for _ in range(nother):
        fns.append({"kind": "lru", "init": 0, "fwd": 0, "nodes": [node("in", 1, 2, 0, [2, 3]), node("ret", 0), node("ret", 1)]})
    sf = {"kind": "splain", "init": 0, "nodes": [node("ret", 0)]}
    return {"nv": nv, "inputs": inputs, "cells": [], "fns": fns, "sfns": [sf, sf, dict(sf, kind="sspec")],
            "ifns": [{"kind": "iplain", "init": 0, "nodes": [node("ret", 0)]}], "lru_cap": rng.choice([1, 1, 2]),
            "_ntop": ntop, "_nother": nother}


def gen_xthread_program(rng):
    """Chains of fixpoint functions with back edges (C18/C19): entered by 3-4 threads at different members, so
    that nested cycles form across threads and lock ownership moves between threads while others wait."""
    full = 7
    inputs = [[[rng.randrange(2), 0], [rng.randrange(2), 0]]]
    n = rng.choice([4, 5, 5, 6])
    fns = []
    for j in range(1, n + 1):
        steps = [("orc", rng.randrange(full + 1))]
        calls = []
        if j < n:
            calls.append(("orcall", j + 1, rng.choice([full, full, 3, 5, 6])))
        if j >= 2 and (j == n or rng.random() < 0.7):
            g = rng.randrange(1, j)
            calls.append(("cond", 1, rng.randrange(2) + 1, g, full) if rng.random() < 0.25 else ("orcall", g, full))
        if rng.random() < 0.35:
            calls.append(("orcall", rng.randrange(1, n + 1), rng.choice([full, 3, 6])))
        if rng.random() < 0.5:
            rng.shuffle(calls)
        steps += calls
        if rng.random() < 0.3:
            steps.append(("cond", 1, rng.randrange(2) + 1, rng.randrange(1, n + 1), full))
        fns.append({"kind": rng.choice(["fix", "fix", "fix", "fixjoin"]), "init": 0, "fwd": 0, "nodes": chain_body(rng, steps)})
    return {"nv": full + 1, "inputs": inputs, "cells": [], "fns": fns, "sfns": [], "ifns": [], "lru_cap": 2}


def gen_cycle_program(rng, family):
    if family in ("fix", "fb"):
        for _ in range(40):
            p = gen_cycle_program1(rng, family)
            if cycle_shape_changes(p) or rng.random() < 0.1:
                return p
        return p
    return gen_cycle_program1(rng, family)


def gen_cycle_program1(rng, family):
    """Programs for C12 (fix/fixjoin), C13 (fb), C14 (pcycle: plain functions that may form cycles), C15 (diverge)."""
    nin = rng.choice([1, 2])
    inputs = [[[rng.randrange(2), rng.choice([0, 0, 1, 2])], [rng.randrange(2), rng.choice([0, 0, 2])]] for _ in range(nin)]
    nbits = 3
    full = (1 << nbits) - 1
    if family in ("fix", "fb"):
        ncyc = rng.choice([1, 2, 3, 3, 4])
        nleaf = rng.choice([0, 1])
        ncons = rng.choice([0, 1, 1])
        # order: consumers (plain), cycle members, leaves (plain)
        nfn = ncons + ncyc + nleaf
        cyc = list(range(ncons + 1, ncons + ncyc + 1))
        leaves = list(range(ncons + ncyc + 1, nfn + 1))
        fns = []
        for j in range(1, nfn + 1):
            if j in cyc:
                kind = "fb" if family == "fb" else rng.choice(["fix", "fix", "fixjoin"])
                steps = [("orc", rng.randrange(full + 1))] if rng.random() < 0.8 else []
                for _ in range(rng.choice([1, 2, 2, 3])):
                    g = rng.choice(cyc + cyc + leaves) if leaves else rng.choice(cyc)
                    mask = rng.choice([full, full, full, 3, 5, 6])
                    if rng.random() < 0.2:
                        steps.append(("condelse", rng.randrange(nin) + 1, rng.randrange(2) + 1, g, mask, rng.randrange(full + 1)))
                    elif rng.random() < 0.35:
                        steps.append(("cond", rng.randrange(nin) + 1, rng.randrange(2) + 1, g, mask))
                    else:
                        steps.append(("orcall", g, mask))
                    if rng.random() < 0.3:
                        steps.append(("orc", rng.randrange(full + 1)))
                init = 0 if family == "fix" else rng.randrange(full + 1)
                fns.append({"kind": kind, "init": init, "nodes": chain_body(rng, steps)})
            elif j in leaves:
                steps = [("orc", rng.randrange(full + 1))]
                if rng.random() < 0.6:
                    steps = [("orc", rng.randrange(full + 1)), ("cond", rng.randrange(nin) + 1, rng.randrange(2) + 1, j, 0)]
                    # conditional self-free variant: replace the cond call by an input-dependent constant
                    i, f = rng.randrange(nin) + 1, rng.randrange(2) + 1
                    c0, c1 = rng.randrange(full + 1), rng.randrange(full + 1)
                    nodes = [node("in", i, f, 0, [2, 3]), node("orc", c0, 0, 0, [4]), node("orc", c1, 0, 0, [4]), node("retr")]
                    fns.append({"kind": "plain", "init": 0, "nodes": nodes})
                    continue
                fns.append({"kind": "plain", "init": 0, "nodes": chain_body(rng, steps)})
            else:
                # consumer: combines cycle members
                steps = [("orcall", rng.choice(cyc), full)]
                if rng.random() < 0.5:
                    steps.append(("cond", rng.randrange(nin) + 1, rng.randrange(2) + 1, rng.choice(cyc), full))
                fns.append({"kind": rng.choice(["plain", "plain", "noeq"]), "init": 0, "nodes": chain_body(rng, steps)})
        return {"nv": full + 1, "inputs": inputs, "cells": [], "fns": fns, "sfns": [], "ifns": [], "lru_cap": 2}
    if family == "pcycle":
        nfn = rng.choice([2, 3, 4])
        fns = []
        for j in range(1, nfn + 1):
            steps = [("orc", rng.randrange(4))]
            for _ in range(rng.choice([1, 2])):
                g = rng.randrange(nfn) + 1
                if g <= j:
                    # backward (possibly cyclic) edges are conditional on an input
                    steps.append(("cond", rng.randrange(nin) + 1, rng.randrange(2) + 1, g, full))
                else:
                    steps.append(rng.choice([("orcall", g, full), ("cond", rng.randrange(nin) + 1, rng.randrange(2) + 1, g, full)]))
            fns.append({"kind": "plain", "init": 0, "nodes": chain_body(rng, steps)})
        return {"nv": full + 1, "inputs": inputs, "cells": [], "fns": fns, "sfns": [], "ifns": [], "lru_cap": 2}
    if family == "pcyclefix":
        # fixpoint heads above functions without recovery whose backward calls are input-controlled (C14)
        nfix = rng.choice([1, 1, 2])
        nplain = rng.choice([2, 2, 3])
        nfn = nfix + nplain
        fns = []
        for j in range(1, nfn + 1):
            steps = [("orc", 1 << ((j - 1) % 3))]
            if j <= nfix:
                steps.append(("orcall", rng.randrange(nfix + 1, nfn + 1), full))
                if rng.random() < 0.4:
                    steps.append(("cond", rng.randrange(nin) + 1, rng.randrange(2) + 1, rng.randrange(nfn) + 1, full))
                fns.append({"kind": "fix", "init": 0, "nodes": chain_body(rng, steps)})
            else:
                for _ in range(rng.choice([1, 2, 2])):
                    g = rng.randrange(nfn) + 1
                    if g <= nfix:
                        steps.append(rng.choice([("orcall", g, full), ("cond", rng.randrange(nin) + 1, rng.randrange(2) + 1, g, full)]))
                    else:
                        steps.append(("cond", rng.randrange(nin) + 1, rng.randrange(2) + 1, g, full))
                fns.append({"kind": "plain", "init": 0, "nodes": chain_body(rng, steps)})
        return {"nv": full + 1, "inputs": inputs, "cells": [], "fns": fns, "sfns": [], "ifns": [], "lru_cap": 2}
    if family == "diverge" and rng.random() < 0.5:
        # nested variant: outer = NOT inner (under an input switch), inner = outer | (mid & 0), mid = inner (plain)
        i2 = rng.randrange(nin) + 1
        if rng.random() < 0.6:
            # the cycle exists for both values of the switch: outer = inner (converges) / outer = NOT inner (diverges)
            f_out = [node("in", 1, 1, 0, [2, 3]), node("call", 3, 0, 0, [5, 4]), node("call", 3, 0, 0, [4, 5]), node("ret", 1), node("ret", 0)]
        else:
            f_out = [node("in", 1, 1, 0, [2, 3]), node("ret", rng.randrange(2)), node("call", 3, 0, 0, [4, 5]), node("ret", 1), node("ret", 0)]
        f_in = chain_body(rng, [("orcall", 2, full), ("orcall", 4, 0)])
        f_mid = chain_body(rng, [("orcall", 3, full)])
        f1 = chain_body(rng, [("orc", 4), ("orcall", 2, full)])
        f5 = [node("in", i2, 2, 0, [2, 3]), node("ret", 0), node("ret", 1)]
        fns = [{"kind": "plain", "init": 0, "nodes": f1}, {"kind": "fix", "init": 0, "nodes": f_out},
               {"kind": "fix", "init": 0, "nodes": f_in}, {"kind": "plain", "init": 0, "nodes": f_mid},
               {"kind": "plain", "init": 0, "nodes": f5}]
        return {"nv": full + 1, "inputs": inputs, "cells": [], "fns": fns, "sfns": [], "ifns": [], "lru_cap": 2}
    if family == "diverge":
        # f1 consumer of f2; f2 = if in(1,1)=1 then NOT f2 (never stabilises) else const; f3 unrelated; f4 convergent cycle
        i2 = rng.randrange(nin) + 1
        f2 = [node("in", 1, 1, 0, [2, 3]), node("ret", rng.randrange(2)), node("call", 2, 0, 0, [4, 5]), node("ret", 1), node("ret", 0)]
        f1 = chain_body(rng, [("orc", 4), ("orcall", 2, full)])
        f3 = [node("in", i2, 2, 0, [2, 3]), node("ret", 0), node("ret", 1)]
        f4 = chain_body(rng, [("orc", 1), ("orcall", 4, full), ("cond", 1, 2, 2, full)])
        fns = [{"kind": "plain", "init": 0, "nodes": f1}, {"kind": "fix", "init": 0, "nodes": f2},
               {"kind": "plain", "init": 0, "nodes": f3}, {"kind": "fix", "init": 0, "nodes": f4}]
        return {"nv": full + 1, "inputs": inputs, "cells": [], "fns": fns, "sfns": [], "ifns": [], "lru_cap": 2}
    raise ValueError(family)


def gen_reclaim_program(rng):
    """Template family for reclamation of interned values / tracked structs held by rarely requested queries.

    f1 = P  forwards the handles of f2 (and maybe reads them)         -- requested rarely
    f2 = Q  interns a value / creates a struct depending on input 1   -- only reached through P
    f3.. = R  intern values (overlapping with Q's) depending on input 2 -- requested in most revisions
    """
    k = rng.choice([1, 1, 1, 2, 2, 3])
    dom = rng.choice([3, 4])
    nin = 2

    def interns(n):
        return [rng.randrange(dom) for _ in range(n)]

    def chain(ops, tail):
        """ops: list of (op, a, b) executed in sequence, then `tail` node list appended"""
        nodes = []
        for (op, a, b) in ops:
            nodes.append(node(op, a, b, 0, [len(nodes) + 2]))
        base = len(nodes)
        for t in tail:
            t = dict(t)
            t["kids"] = [x + base for x in t["kids"]]
            nodes.append(t)
        return nodes

    def q_body():
        # in(1,f) -> branch: intern different values (and maybe a struct), return
        f = rng.randrange(2) + 1
        nodes = [node("in", 1, f, 0, [2, 4])]
        for v in interns(2):
            ops = [("intern", k, v)]
            nodes.append(node("intern", k, v, 0, [len(nodes) + 2]))
            nodes.append(node("ret", rng.randrange(2)))
        return nodes

    def r_body():
        f = rng.randrange(2) + 1
        nodes = [node("in", 2, f, 0, [2, 5])]
        for _ in range(2):
            vs = interns(2)
            nodes.append(node("intern", k, vs[0], 0, [len(nodes) + 2]))
            nodes.append(node("intern", rng.choice([k, k, 1]), vs[1], 0, [len(nodes) + 2]))
            nodes.append(node("ret", rng.randrange(2)))
        return nodes

    # P: call Q, optionally read the forwarded handle, return
    if rng.random() < 0.5:
        p_nodes = [node("call", 2, 0, 0, [2, 2]), node("rdint", 1, 0, 0, [3, 4, 3, 4]), node("ret", 0), node("ret", 1)]
    else:
        p_nodes = [node("call", 2, 0, 0, [2, 3]), node("ret", 0), node("ret", 1)]
    fns = [{"kind": "plain", "init": 0, "fwd": 1, "nodes": p_nodes},
           {"kind": rng.choice(["plain", "q2"]), "init": 0, "fwd": 0, "nodes": q_body()}]
    for _ in range(rng.choice([1, 2])):
        fns.append({"kind": "plain", "init": 0, "fwd": rng.choice([0, 1]), "nodes": r_body()})
    # H: interns depending on a HIGH-durability input only (its values must never be reclaimed)
    hv = interns(2)
    h_nodes = [node("in", 3, 1, 0, [2, 4]), node("intern", k, hv[0], 0, [3]), node("ret", 0),
               node("intern", k, hv[1], 0, [5]), node("ret", 1)]
    fns.append({"kind": "plain", "init": 0, "fwd": 0, "nodes": h_nodes})
    ifn = [node("rdint", 1, 0, 0, [2, 3, 2, 3]), node("ret", 0), node("ret", 1)]
    sf = [node("ret", 0)]
    return {"nv": 2, "inputs": [[[rng.randrange(2), 0], [rng.randrange(2), 0]] for _ in range(nin)] + [[[rng.randrange(2), 2], [0, 2]]], "cells": [],
            "fns": fns, "sfns": [{"kind": "splain", "init": 0, "nodes": sf}] * 2 + [{"kind": "sspec", "init": 0, "nodes": sf}],
            "ifns": [{"kind": "iplain", "init": 0, "nodes": ifn}], "lru_cap": 2}


def gen_reclaim_history(rng, prog, nops):
    nfn = len(prog["fns"])
    hist = [{"op": "get", "f": 1}]
    for _ in range(nops):
        r = rng.random()
        if r < 0.40:
            hist.append({"op": "set", "i": 2, "f": rng.randrange(2) + 1, "v": rng.randrange(2), "d": -1})
        elif r < 0.70:
            hist.append({"op": "get", "f": rng.randrange(3, nfn)})
        elif r < 0.76:
            hist.append({"op": "get", "f": nfn})
        elif r < 0.78:
            hist.append({"op": "set", "i": 3, "f": 1, "v": rng.randrange(2), "d": -1})
        elif r < 0.84:
            hist.append({"op": "synth", "d": 0})
        elif r < 0.90:
            hist.append({"op": "set", "i": 1, "f": rng.randrange(2) + 1, "v": rng.randrange(2), "d": -1})
        elif r < 0.97:
            hist.append({"op": "get", "f": 1})
        else:
            hist.append({"op": "get", "f": 2})
    return hist


def gen_accchain_program(rng):
    """Template family for C11: a call chain whose lowest functions accumulate depending on inputs while
    returning equal values (so upper functions are verified, not re-executed)."""
    depth = rng.choice([3, 3, 4])
    nin = 2
    fns = []
    leaf_fields = [(1, 1), (1, 2)]
    for j in range(1, depth + 1):
        if j < depth:
            nodes = []
            # optional read of an unrelated field (input 2), then call the next one (maybe twice), constant result
            if rng.random() < 0.4:
                nodes.append(node("in", 2, rng.randrange(2) + 1, 0, [2, 2]))
            nodes.append(node("call", j + 1, 0, 0, [len(nodes) + 2, len(nodes) + 2]))
            if rng.random() < 0.3 and j + 2 <= depth:
                nodes.append(node("call", j + 2, 0, 0, [len(nodes) + 2, len(nodes) + 2]))
            if rng.random() < 0.2:
                nodes.append(node("acc", rng.randrange(4), 0, 0, [len(nodes) + 2]))
            nodes.append(node("ret", 0))
            fns.append({"kind": rng.choice(["plain", "plain", "q2"]), "init": 0, "fwd": 0, "nodes": nodes})
        else:
            i, f = rng.choice(leaf_fields)
            a0, a1 = rng.randrange(4), rng.randrange(4)
            variant = rng.randrange(3)
            if variant == 0:      # accumulate only when the field is 1
                nodes = [node("in", i, f, 0, [2, 3]), node("ret", 0), node("acc", a1, 0, 0, [4]), node("ret", 0)]
            elif variant == 1:    # different values
                nodes = [node("in", i, f, 0, [2, 4]), node("acc", a0, 0, 0, [3]), node("ret", 0), node("acc", a1, 0, 0, [5]), node("ret", 0)]
            else:                 # accumulate only when 0, result differs
                nodes = [node("in", i, f, 0, [2, 4]), node("acc", a0, 0, 0, [3]), node("ret", 0), node("ret", rng.randrange(2))]
            fns.append({"kind": "plain", "init": 0, "fwd": 0, "nodes": nodes})
    return {"nv": 2, "inputs": [[[rng.randrange(2), rng.choice([0, 0, 2])], [rng.randrange(2), 0]] for _ in range(nin)], "cells": [],
            "fns": fns, "sfns": [], "ifns": [], "lru_cap": 2}


def gen_accchain_history(rng, prog, nops):
    nfn = len(prog["fns"])
    hist = []
    for _ in range(nops):
        r = rng.random()
        if r < 0.35:
            hist.append({"op": "set", "i": 1, "f": rng.randrange(2) + 1, "v": rng.randrange(2), "d": rng.choice([-1, -1, 0])})
        elif r < 0.42:
            hist.append({"op": "set", "i": 2, "f": rng.randrange(2) + 1, "v": rng.randrange(2), "d": -1})
        elif r < 0.47:
            hist.append({"op": "synth", "d": rng.choice([0, 2])})
        elif r < 0.80:
            hist.append({"op": "accum", "f": rng.choice([1, 1, 1, 2])})
        elif r < 0.90:
            hist.append({"op": "accum", "f": rng.randrange(nfn) + 1})
        else:
            hist.append({"op": "get", "f": rng.randrange(nfn) + 1})
    return hist


CYCLE_FAMILIES = ("fix", "fb", "pcycle", "pcyclefix", "diverge")


def gen_history(rng, prog, nops, family="core"):
    nfn = len(prog["fns"])
    nin = len(prog["inputs"])
    ncell = len(prog["cells"])
    nv = prog["nv"]
    hist = []
    w = {"get": 6, "set": 4, "synth": 1, "cell": 2 if ncell else 0, "lru": 0, "evict": 0, "accum": 0, "gets": 0, "persist": 2 if family == "persist" else 0}
    if family in ("lru", "mixed", "structlru"):
        w["lru"] = 1
        w["evict"] = 1
        w["get"] = 8
    if family in ("accum", "accumlru"):
        w["accum"] = 8
        w["get"] = 2
        w["set"] = 6
    if family == "accumlru":
        w["lru"] = 1
        w["evict"] = 1
        w["get"] = 4
        w["synth"] = 3
    if family in ("struct", "structlru", "structcoll", "structdur", "spec", "mixed", "churn"):
        w["gets"] = 3
    if family == "churn":
        w["set"] = 8
        w["synth"] = 2
    if family in ("dur", "structdur"):
        w["synth"] = 2
    ops = [k for k, v in w.items() for _ in range(v)]
    dchoices = {
        "core": [-1, -1, -1, 0, 1, 2],
        "dur": [-1, -1, 0, 1, 2, 2, 3],
        "structdur": [-1, -1, -1, 0, 1, 2, 2],
        "churn": [-1],
    }.get(family, [-1, -1, -1, 0, 1, 2])
    focus = list(range(1, nfn + 1))
    for n in range(nops):
        o = rng.choice(ops)
        if family == "churn" and n % 10 == 0:
            # phases: for a while only a few functions are requested, so others go unvalidated for
            # several revisions (their interned values / structs become stale and get reclaimed)
            focus = rng.sample(range(1, nfn + 1), rng.choice([1, 1, 2]) if nfn > 1 else 1)
        if o == "get":
            f = rng.choice(focus) if rng.random() < 0.85 else rng.randrange(nfn) + 1
            hist.append({"op": "get", "f": f})
        elif o == "set":
            hist.append({"op": "set", "i": rng.randrange(nin) + 1, "f": rng.randrange(2) + 1,
                         "v": rng.randrange(2 if family in CYCLE_FAMILIES else nv), "d": rng.choice(dchoices)})
        elif o == "synth":
            hist.append({"op": "synth", "d": rng.choice([0, 1, 2, 3] if family == "dur" else [0, 1, 2])})
        elif o == "cell":
            hist.append({"op": "cell", "k": rng.randrange(ncell) + 1, "v": rng.randrange(nv), "d": rng.choice([0, 0, 1, 2])})
        elif o == "lru":
            hist.append({"op": "lru", "k": rng.choice([0, 1, 1, 2, 3])})
        elif o == "evict":
            hist.append({"op": "evict"})
        elif o == "persist":
            hist.append({"op": "persist"})
        elif o == "accum":
            hist.append({"op": "accum", "f": rng.randrange(nfn) + 1})
        elif o == "gets":
            hist.append({"op": "gets", "f": rng.randrange(nfn) + 1, "m": rng.choice([1, 2, 3] if family == "spec" else [1, 2]),
                         "k": rng.choice([1, 1, 2])})
    return hist


def gen_structdur_program(rng):
    """C02 x tracked structs: a creator that reads a HIGH selector and, depending on it, also a LOW input before it
    (re-)creates a struct; readers of the struct's tracked fields (plain and struct-keyed functions) must follow the
    struct's durability when it drops."""
    nv = 2
    sel_d, low_d = rng.choice([2, 2, 1]), 0
    inputs = [[[rng.randrange(2), sel_d], [rng.randrange(2), low_d]], [[rng.randrange(2), rng.choice([0, 2])], [rng.randrange(2), 2]]]
    x0, y0 = rng.randrange(2), rng.randrange(2)
    fldn = rng.choice([1, 2])           # the tracked field that follows the LOW input
    def mk(lowv):
        x = lowv if fldn == 1 else x0
        y = lowv if fldn == 2 else y0
        return ("new", 0, x, y)
    base = mk(rng.randrange(2))         # fields while only the selector is read
    creator = [node("in", 1, 1, 0, [2, 4]) if rng.random() < 0.5 else node("in", 1, 1, 0, [4, 2]),
               node(*base, kids=[3]), node("ret", 0),
               node("in", 1, 2, 0, [5, 7]), node(*mk(0), kids=[6]), node("ret", 0), node(*mk(1), kids=[8]), node("ret", 0)]
    reader = [node("call", 1, 0, 0, [2, 2]), node("fld", 1, fldn, 0, [3, 4]), node("ret", 0), node("ret", 1)]
    reader2 = [node("call", 1, 0, 0, [2, 2]), node("calls", 1, 1, 0, [3, 4]), node("ret", 0), node("ret", 1)]
    other = [node("in", 2, 1, 0, [2, 3]), node("call", 2, 0, 0, [4, 4]), node("ret", 1), node("ret", 0)]
    fns = [{"kind": "plain", "init": 0, "fwd": 0, "nodes": creator},
           {"kind": rng.choice(["plain", "plain", "noeq"]), "init": 0, "fwd": 0, "nodes": reader},
           {"kind": "plain", "init": 0, "fwd": 0, "nodes": reader2},
           {"kind": "plain", "init": 0, "fwd": 0, "nodes": other}]
    sf1 = [node("fld", 1, fldn, 0, [2, 3]), node("ret", 0), node("ret", 1)]
    sf = {"kind": "splain", "init": 0, "nodes": [node("ret", 0)]}
    return {"nv": nv, "inputs": inputs, "cells": [], "fns": fns,
            "sfns": [{"kind": "splain", "init": 0, "nodes": sf1}, sf, dict(sf, kind="sspec")],
            "ifns": [{"kind": "iplain", "init": 0, "nodes": [node("ret", 0)]}], "lru_cap": 2}


def gen_structdur_history(rng, prog, nops):
    hist = []
    while len(hist) < nops:
        c = rng.random()
        if c < 0.45:
            hist.append({"op": "get", "f": rng.choice([2, 2, 3, 4, 1])})
        elif c < 0.6:
            hist.append({"op": "gets", "f": 1, "m": 1, "k": 1})
        elif c < 0.75:
            hist.append({"op": "set", "i": 1, "f": 1, "v": rng.randrange(2), "d": -1})      # the selector (durable)
        elif c < 0.92:
            hist.append({"op": "set", "i": 1, "f": 2, "v": rng.randrange(2), "d": -1})      # the LOW input
        elif c < 0.96:
            hist.append({"op": "set", "i": 2, "f": 1, "v": rng.randrange(2), "d": -1})
        else:
            hist.append({"op": "synth", "d": rng.choice([0, 1, 2])})
    return hist


def gen_persistshare_program(rng):
    """C26: several memos of the persisted function whose dependency trees share non-persisted helpers
    (persisted -> non-persisted mid -> non-persisted leaf -> inputs): serialization flattens every memo's
    dependencies through the helpers separately."""
    nv = 2
    nin = 2
    inputs = [[[rng.randrange(nv), rng.choice([0, 0, 1])], [rng.randrange(nv), rng.choice([0, 0, 1])]] for _ in range(nin)]
    n_p, n_m, n_l = rng.choice([2, 3, 3]), rng.choice([1, 2]), rng.choice([1, 2])
    nfn = n_p + n_m + n_l
    mids = list(range(n_p + 1, n_p + n_m + 1))
    leaves = list(range(n_p + n_m + 1, nfn + 1))
    fns = []
    for j in range(1, nfn + 1):
        if j <= n_p:
            kind, callees, ops, depth = "pplain", mids + (leaves if rng.random() < 0.3 else []), ["call", "call", "call", "in"], rng.choice([2, 3])
        elif j in mids:
            kind, callees, ops, depth = "pnp", leaves, ["call", "call", "in"], rng.choice([2, 3])
        else:
            kind, callees, ops, depth = "pnp", [], ["in"], rng.choice([1, 2])
        spec = {"nv": nv, "nin": nin, "ncell": 0, "callees": callees, "ops": ops, "p_leaf": 0.1, "exports": {}}
        tr = Tree()
        build(rng, spec, depth, tr, {"nh": 0, "ni": 0})
        fns.append({"kind": kind, "init": 0, "fwd": 0, "nodes": tr.nodes})
    sf = {"kind": "splain", "init": 0, "nodes": [node("ret", 0)]}
    return {"nv": nv, "inputs": inputs, "cells": [], "fns": fns, "sfns": [sf, sf, dict(sf, kind="sspec")],
            "ifns": [{"kind": "iplain", "init": 0, "nodes": [node("ret", 0)]}], "lru_cap": 2, "_np": n_p}


def gen_persistshare_history(rng, prog, nops):
    n_p = prog.pop("_np")
    nfn = len(prog["fns"])
    hist = []
    while len(hist) < nops:
        order = list(range(1, n_p + 1))
        rng.shuffle(order)
        hist += [{"op": "get", "f": f} for f in order]
        if rng.random() < 0.3:
            hist.append({"op": "get", "f": rng.randrange(nfn) + 1})
        hist.append({"op": "persist"})
        for _ in range(rng.choice([1, 2, 3])):
            if rng.random() < 0.7:
                hist.append({"op": "set", "i": rng.randrange(2) + 1, "f": rng.randrange(2) + 1, "v": rng.randrange(2), "d": -1})
            rng.shuffle(order)
            hist += [{"op": "get", "f": f} for f in order[:rng.choice([1, 2, n_p])]]
    return hist


def gen_jobs(seed, njobs, family, nops):
    rng = random.Random(seed)
    jobs = []
    for n in range(njobs):
        if family == "reclaim":
            prog = gen_reclaim_program(rng)
            hist = gen_reclaim_history(rng, prog, nops)
        elif family in ("fixshape", "fbshape"):
            prog = gen_fixshape_program(rng, "fix" if family == "fixshape" else "fb")
            hist = gen_fixshape_history(rng, prog, nops)
        elif family == "accchain":
            prog = gen_accchain_program(rng)
            hist = gen_accchain_history(rng, prog, nops)
        elif family == "fixstruct":
            prog = gen_fixstruct_program(rng)
            hist = gen_history(rng, prog, nops, "fix")
        elif family == "structdur":
            prog = gen_structdur_program(rng)
            hist = gen_structdur_history(rng, prog, nops)
        elif family == "persistshare":
            prog = gen_persistshare_program(rng)
            hist = gen_persistshare_history(rng, prog, nops)
        else:
            prog = gen_cycle_program(rng, family) if family in CYCLE_FAMILIES else gen_program(rng, family)
            hist = gen_history(rng, prog, nops, family)
        jobs.append({"id": n + 1, "prog": prog, "hist": hist, "inject": 0, "seed": seed,
                     "mode": "persist" if family == "persistshare" else family})
    return jobs


def gen_par_jobs(seed, njobs, family, nrounds=3):
    """Parallel jobs: rounds of (sequential writes, then 2-4 threads of gets on clones).

    family: pardag (acyclic, shared sub-queries; C16/C17), parfix / parfb (cycles entered from different
    members; C18), parpcycle (unrecoverable cycles; C14), parintern (C08), parstruct (C24)
    """
    rng = random.Random(seed)
    jobs = []
    base = {"pardag": "dur", "parfix": "fix", "parfb": "fb", "parpcycle": "pcycle", "parintern": "churn",
            "parstruct": "struct", "parcancel": "dur", "parwrite": "dur", "parwritefix": "fix", "parwritenest": "fix", "parcancelfix": "fix", "parcancelnest": "fix", "parnest3": "fix", "parpaniccancel": "fix", "parlru": "lru", "parcancelacc": "accum", "parpanic": "dur", "parmemo": "struct", "paralloc": "struct"}[family]
    for n in range(njobs):
        if family == "paralloc":
            # C24: concurrent creation of inputs, interned values and tracked structs across page boundaries (128 slots)
            nmany = rng.choice([2, 3, 4])
            prog = {"nv": 2, "inputs": [[[0, 0], [0, 0]]], "cells": [],
                    "fns": [{"kind": "many", "init": 0, "fwd": 0, "nodes": [node("ret", 0)]} for _ in range(nmany)],
                    "sfns": [{"kind": "splain", "init": 0, "nodes": [node("ret", 0)]}] * 2 + [{"kind": "sspec", "init": 0, "nodes": [node("ret", 0)]}],
                    "ifns": [{"kind": "iplain", "init": 0, "nodes": [node("ret", 0)]}], "lru_cap": 2}
            rounds = []
            base = 0
            for r in range(nrounds):
                nthreads = rng.choice([2, 3, 4])
                threads = []
                for t in range(nthreads):
                    ops = []
                    for _ in range(rng.choice([2, 3])):
                        c = rng.random()
                        if c < 0.45:
                            ops.append({"op": "mkin", "k": rng.choice([30, 70, 140]), "v": r * 10 + t + 1})
                        elif c < 0.7:
                            ops.append({"op": "mkint", "k": rng.choice([40, 140]), "v": base})
                            base += rng.choice([20, 140])       # overlapping ranges: the same value interned by two threads
                        else:
                            ops.append({"op": "get", "f": rng.randrange(nmany) + 1})
                    threads.append(ops)
                rounds.append({"pre": [], "threads": threads, "writer": [], "cancels": [], "writer_after": 0})
            jobs.append({"id": n + 1, "prog": prog, "hist": [], "inject": 0, "seed": seed * 100003 + n, "mode": family,
                         "rounds": rounds, "jitter": rng.choice([0, 5, 30])})
            continue
        if family == "parlru":
            prog = gen_parlru_program(rng)
            ntop, nother = prog.pop("_ntop"), prog.pop("_nother")
            mid, leaf = ntop + 1, ntop + 2
            rounds = []
            cur = prog["inputs"][0][0][0]
            for r in range(nrounds + 1):
                pre = []
                if r == 0:
                    pre = [{"op": "get", "f": t + 1} for t in range(ntop)]
                # use the other lru keys (the shared one becomes the least recently used), then write the leaf's input:
                # its value is evicted when the new revision starts
                pre += [{"op": "get", "f": leaf + 1 + o} for o in range(nother)]
                if rng.random() < 0.85:
                    cur = 1 - cur
                    pre.append({"op": "set", "i": 1, "f": 1, "v": cur, "d": -1})
                else:
                    pre.append({"op": "synth", "d": 0})
                tops = list(range(1, ntop + 1))
                rng.shuffle(tops)
                threads = [[{"op": "get", "f": tops[t % ntop]}] + ([{"op": "get", "f": rng.choice(tops + [mid])}] if rng.random() < 0.4 else [])
                           for t in range(rng.choice([2, 3, 3]))]
                rounds.append({"pre": pre, "threads": threads, "writer": [], "cancels": [], "writer_after": 0})
            jobs.append({"id": n + 1, "prog": prog, "hist": [], "inject": 0, "seed": seed * 100003 + n, "mode": family,
                         "rounds": rounds, "jitter": rng.choice([50, 200, 500, 1000])})
            continue
        if family == "parmemo":
            # several tracked functions keyed on the same (fresh) struct instance, first executed concurrently
            # the creator makes 1..4 structs depending on two input bits; every round adds a fresh instance
            creator = [node("in", 1, 1, 0, [2, 3]), node("in", 1, 2, 0, [4, 5]), node("in", 1, 2, 0, [7, 10]),
                       node("new", 0, 0, 1, [14]),
                       node("new", 0, 0, 1, [6]), node("new", 1, 1, 0, [14]),
                       node("new", 0, 0, 1, [8]), node("new", 1, 1, 0, [9]), node("new", 2, 0, 0, [14]),
                       node("new", 0, 0, 1, [11]), node("new", 1, 1, 0, [12]), node("new", 2, 0, 0, [13]), node("new", 3, 1, 1, [14]),
                       node("ret", 0)]
            def user(m):
                return [node("call", 1, 0, 0, [2, 2]), node("calls", m, 4, 0, [3, 3]), node("calls", m, 3, 0, [4, 4]),
                        node("calls", m, 2, 0, [5, 5]), node("calls", m, 1, 0, [6, 7]), node("ret", 0), node("ret", 1)]
            sf = lambda: [node("fld", 1, rng.randrange(3), 0, [2, 3, 2]), node("rv", 0, 0, 0, [4]), node("rv", 0, 0, 0, [5]), node("ret", 0), node("ret", 1)]
            prog = {"nv": 2, "inputs": [[[0, 0], [0, 0]]], "cells": [],
                    "fns": [{"kind": "plain", "init": 0, "fwd": 0, "nodes": creator}] +
                           [{"kind": "plain", "init": 0, "fwd": 0, "nodes": user(m)} for m in (1, 2, 1, 2)],
                    "sfns": [{"kind": "splain", "init": 0, "nodes": sf()}, {"kind": "splain", "init": 0, "nodes": sf()},
                             {"kind": "sspec", "init": 0, "nodes": sf()}],
                    "ifns": [{"kind": "iplain", "init": 0, "nodes": [node("ret", 0)]}], "lru_cap": 2}
            rounds = []
            for r in range(nrounds + 2):
                cfgs = [(0, 0), (0, 1), (1, 0), (1, 1), (0, 0)]
                a, b = cfgs[r % 5]
                pre = [{"op": "set", "i": 1, "f": 1, "v": a, "d": -1}, {"op": "set", "i": 1, "f": 2, "v": b, "d": -1}, {"op": "get", "f": 1}]
                nthreads = rng.choice([2, 3, 4])
                threads = [[{"op": "get", "f": 2 + (t % 2)}, {"op": "get", "f": 2 + ((t + 1) % 2)}, {"op": "get", "f": 4 + (t % 2)}] for t in range(nthreads)]
                rounds.append({"pre": pre, "threads": threads, "writer": [], "cancels": [], "writer_after": 0})
            jobs.append({"id": n + 1, "prog": prog, "hist": [], "inject": 0, "seed": seed * 100003 + n, "mode": family,
                         "rounds": rounds, "jitter": rng.choice([0, 0, 20, 100])})
            continue
        if family == "parwritenest":
            prog = gen_nested_fix_program(rng)
        elif family == "parcancelnest":
            prog = gen_nested_fix_program(rng, ncons=rng.choice([1, 2]))
        elif family == "parnest3":
            prog = gen_xthread_program(rng)
        elif family == "parpaniccancel":
            prog = gen_nested_fix_program(rng, ncons=rng.choice([0, 1]), nleaf=rng.choice([1, 2]))
        elif base in CYCLE_FAMILIES:
            prog = gen_cycle_program(rng, base)
        else:
            prog = gen_program(rng, base, nfn=rng.choice([3, 4, 5, 6]))
            for i in prog["inputs"]:
                for f in i:
                    if f[1] == 3:
                        f[1] = 2
        nfn = len(prog["fns"])
        nin = len(prog["inputs"])
        rounds = []
        keeprev = False
        for r in range(nrounds):
            pre = []
            if r > 0 and not (keeprev and rng.random() < 0.8):
                for _ in range(rng.choice([1, 1, 2])):
                    pre.append({"op": "set", "i": rng.randrange(nin) + 1, "f": rng.randrange(2) + 1,
                                "v": rng.randrange(2), "d": rng.choice([-1, -1, 0, 2])})
            if rng.random() < 0.3:
                pre.append({"op": "get", "f": rng.randrange(nfn) + 1})
            nthreads = rng.choice([2, 2, 3, 4]) if family != "parnest3" else rng.choice([3, 3, 4])
            threads = []
            ncons_ = sum(1 for f in prog["fns"] if f["kind"] in ("plain", "noeq")) if family == "parcancelnest" else 0
            for t in range(nthreads):
                threads.append([{"op": "get", "f": (rng.randrange(ncons_) + 1) if ncons_ and rng.random() < 0.6 else rng.randrange(nfn) + 1}
                                for _ in range(rng.choice([1, 2, 3, 4]))])
            if family == "parnest3":
                # every thread enters the cycles at a different member
                entry = rng.sample(range(1, nfn + 1), nthreads)
                threads = [[{"op": "get", "f": entry[t]}] + [{"op": "get", "f": rng.randrange(nfn) + 1} for _ in range(rng.choice([0, 1, 2]))]
                           for t in range(nthreads)]
            writer, writer_after, cancels = [], 0, []
            if family in ("parwrite", "parwritefix", "parwritenest") and rng.random() < (0.95 if family == "parwritenest" else 0.8):
                writer = [{"op": "set", "i": rng.randrange(nin) + 1, "f": rng.randrange(2) + 1, "v": rng.randrange(2),
                           "d": rng.choice([-1, -1, 0, 2])}]
                c = rng.random()
                if c < 0.2:
                    writer = [{"op": "synth", "d": rng.choice([0, 1, 2])}]
                elif (c < 0.5 and family == "parwritefix") or (c < 0.85 and family == "parwritenest"):
                    # revision-preserving writes (C20): readers are cancelled, the revision stays, and the next
                    # round re-evaluates in the same revision on top of whatever the cancelled readers left behind
                    writer = [rng.choice([{"op": "evict"}, {"op": "lru", "k": rng.choice([0, 1, 2])}])]
                writer_after = rng.choice([0, 3, 8, 15, 25, 40, 60])
                if family == "parwritenest":
                    writer_after = rng.choice([4, 8, 12, 16, 20, 25, 30, 40, 50])
                for th in threads:
                    th += [{"op": "get", "f": rng.randrange(nfn) + 1} for _ in range(rng.choice([2, 4, 6]))]
            if family in ("parcancel", "parcancelfix", "parcancelnest", "parpaniccancel", "parcancelacc"):
                ncanc = rng.choice([1, 1, 2]) if family not in ("parcancelnest", "parpaniccancel") else rng.choice([2, 3])
                if family == "parcancelacc":
                    ncanc = rng.choice([4, 5, 6])
                for _ in range(ncanc):
                    cancels.append([rng.randrange(nthreads) + 1,
                                    rng.choice([1, 4, 8, 15, 25, 40] if family != "parcancelacc" else [2, 4, 6, 9, 12, 16, 20, 26, 34, 44])])
                for th in threads:
                    th += [{"op": "get", "f": rng.randrange(nfn) + 1}
                           for _ in range(rng.choice([1, 2, 3]) if family != "parcancelacc" else rng.choice([4, 6, 8]))]
            keeprev = bool(writer) and writer[0]["op"] in ("evict", "lru")
            if family == "parwritenest" and r == 1 and rng.random() < 0.35:
                keeprev = True
                # the cancellation count of a revision is a u8: 256 revision-preserving writes make it wrap
                # (salsa then starts a new revision); the concurrent write of this round follows them
                pre = pre + [{"op": "evict"} for _ in range(256)]
                writer = [{"op": "evict"}]
            rounds.append({"pre": pre, "threads": threads, "writer": writer, "cancels": cancels, "writer_after": writer_after})
        jobs.append({"id": n + 1, "prog": prog, "hist": [], "inject": 0, "seed": seed * 100003 + n, "mode": family,
                     "rounds": rounds, "jitter": rng.choice([0, 50, 200, 500]) if family != "parnest3" else rng.choice([20, 100, 300, 600])})
        if family == "parpanic":
            jobs[-1]["inject"] = rng.choice([3, 5, 8, 12, 17, 23, 30, 40])
        if family == "parpaniccancel":
            jobs[-1]["inject"] = rng.choice([4, 6, 8, 10, 12, 15, 18, 22, 26, 30, 36, 44, 55, 70, 90, 120, 160])
    return jobs


if __name__ == "__main__":
    if sys.argv[3].startswith("par"):
        for j in gen_par_jobs(int(sys.argv[1]), int(sys.argv[2]), sys.argv[3], int(sys.argv[4])):
            print(json.dumps(j, separators=(",", ":")))
        sys.exit(0)
    seed = int(sys.argv[1])
    njobs = int(sys.argv[2])
    family = sys.argv[3]
    nops = int(sys.argv[4])
    for j in gen_jobs(seed, njobs, family, nops):
        print(json.dumps(j, separators=(",", ":")))
