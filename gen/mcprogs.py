#!/usr/bin/env python3
"""Curated small programs for exhaustive model checking of the generative specs (CoreGen).

Each program is tiny (<= 4 functions, one or two inputs) but exercises a specific shape:
dynamic dependencies, diamonds, durability mixes, untracked reads, LRU, no_eq, backdating.
"""
import json
import sys
from gen import node


def ret(c):
    return ("ret", c)


def flat(tree):
    """tree: ("ret", c) | ("in", i, f, [kids]) | ("call", g, [kids]) | ("cell", k, [kids]) | ("untr", kid)"""
    nodes = []

    def go(t):
        idx = len(nodes)
        nodes.append(None)
        if t[0] == "ret":
            nodes[idx] = node("ret", t[1])
        elif t[0] == "in":
            kids = [go(k) for k in t[3]]
            nodes[idx] = node("in", t[1], t[2], 0, kids)
        elif t[0] == "call":
            kids = [go(k) for k in t[2]]
            nodes[idx] = node("call", t[1], 0, 0, kids)
        elif t[0] == "cell":
            kids = [go(k) for k in t[2]]
            nodes[idx] = node("cell", t[1], 0, 0, kids)
        elif t[0] == "untr":
            kids = [go(t[1])]
            nodes[idx] = node("untr", 0, 0, 0, kids)
        else:
            raise ValueError(t)
        return idx + 1

    go(tree)
    return nodes


def prog(fns, inputs, cells=(), lru_cap=2):
    return {"nv": 2, "inputs": inputs, "cells": list(cells),
            "fns": [{"kind": k, "init": 0, "nodes": flat(t)} for (k, t) in fns],
            "sfns": [], "ifns": [], "lru_cap": lru_cap}


def IN(i, f, k0, k1):
    return ("in", i, f, [k0, k1])


def CALL(g, k0, k1):
    return ("call", g, [k0, k1])


def CELL(k, k0, k1):
    return ("cell", k, [k0, k1])


R0, R1 = ret(0), ret(1)

FAMILIES = {
    # f1 = f2 xor-ish over a second field; f2 collapses its input (backdating); dynamic dependency in f1
    "core": [
        prog([("plain", CALL(2, IN(1, 2, R0, R1), R1)),
              ("plain", IN(1, 1, R0, R0))],                       # f2 constant in a: always backdates
             [[[0, 0], [0, 0]]]),
        prog([("plain", CALL(2, R0, IN(1, 2, R0, R1))),          # reads b only when f2 = 1 (dynamic)
              ("plain", IN(1, 1, R0, R1))],
             [[[0, 0], [1, 0]]]),
        prog([("plain", CALL(2, CALL(3, R0, R1), CALL(3, R1, R0))),   # diamond: f1 -> f2, f3 ; f2 -> f3
              ("plain", CALL(3, R0, R1)),
              ("noeq", IN(1, 1, R0, R0))],
             [[[0, 0], [0, 0]]]),
        prog([("q2", CALL(2, R0, CALL(3, R0, R1))),
              ("plain", IN(1, 1, R0, R1)),
              ("q0", IN(1, 2, R1, R0))],
             [[[1, 0], [0, 0]]]),
    ],
    # durability mixes: HIGH input feeding a function also reading a LOW one; NEVER inputs
    "dur": [
        prog([("plain", CALL(2, IN(1, 2, R0, R1), R1)),
              ("plain", IN(1, 1, R0, R1))],
             [[[0, 2], [0, 0]]]),
        prog([("plain", CALL(2, R0, R1)),
              ("plain", IN(1, 1, IN(1, 2, R0, R1), R1))],
             [[[0, 2], [1, 1]]]),
        prog([("plain", CALL(2, R0, IN(1, 2, R0, R1))),
              ("plain", IN(1, 1, R0, R1))],
             [[[1, 3], [0, 2]]]),
        prog([("plain", CALL(2, CALL(3, R0, R1), R1)),
              ("plain", IN(1, 1, R0, R1)),
              ("plain", IN(1, 2, R0, R0))],
             [[[0, 1], [0, 2]]]),
    ],
    "untracked": [
        prog([("plain", CALL(2, R0, IN(1, 1, R0, R1))),
              ("plain", CELL(1, R0, R1))],
             [[[0, 0], [0, 0]]], cells=[0]),
        prog([("plain", CALL(2, R0, R1)),
              ("plain", IN(1, 1, CELL(1, R0, R0), R1))],         # untracked only on one path; equal results
             [[[0, 0], [0, 0]]], cells=[1]),
        prog([("plain", CALL(2, CALL(3, R0, R1), R1)),
              ("plain", ("untr", IN(1, 1, R0, R1))),
              ("plain", IN(1, 2, R0, R1))],
             [[[0, 2], [0, 0]]], cells=[]),
    ],
    "lru": [
        prog([("plain", CALL(2, CALL(3, R0, R1), R1)),
              ("lru", IN(1, 1, R0, R1)),
              ("lru", IN(1, 2, R0, R0))],
             [[[0, 0], [0, 0]]], lru_cap=1),
        prog([("lru", CALL(2, R0, R1)),
              ("lru", IN(1, 1, R0, R1)),
              ("lru", IN(1, 2, R0, R1))],
             [[[0, 0], [1, 0]]], lru_cap=1),
        prog([("lru", CALL(3, R0, R1)),
              ("lru", CALL(3, R1, R0)),
              ("plain", IN(1, 1, R0, R0))],
             [[[0, 0], [0, 0]]], lru_cap=1),
    ],
}

if __name__ == "__main__":
    fam = sys.argv[1]
    for p in FAMILIES[fam]:
        print(json.dumps(p, separators=(",", ":")))
