SPECIFICATION Spec
CONSTANTS
  NH = 2
  MaxChecks = 2
  MaxWrites = 2
  MaxReqs = 3
  NoWait = FALSE
  IgnoreCount = FALSE
  NoUncancel = FALSE
INVARIANTS NoBad TypeOk TokenResetAtOutermost
PROPERTY WriterEventuallyProceeds
CHECK_DEADLOCK FALSE
