------------------------------- MODULE Cancel -------------------------------
(***************************************************************************)
(* Writers vs. readers and local cancellation tokens.                      *)
(*                                                                         *)
(*   storage.rs  cancel_others: set flag -> wait clones = 1 -> reset flag  *)
(*               -> cancellation_count + 1 ; CoordinateDrop: clones - 1    *)
(*   zalsa.rs    unwind_if_revision_cancelled: local token, then the flag  *)
(*   zalsa_local CancellationToken {cancelled, disabled} bits, uncancel    *)
(*   execute.rs  DisableLocalCancellationGuard around cycle-handling fns   *)
(*   maybe_changed_after.rs validate_may_be_provisional: iteration stamp   *)
(*               carries the cancellation count                            *)
(*                                                                         *)
(* Readers are clones of the database; each runs requests that check for   *)
(* cancellation a bounded number of times; a reader that finishes or is    *)
(* cancelled by a pending write drops its handle (the contract C20 states).*)
(***************************************************************************)
EXTENDS Integers, FiniteSets, Sequences, TLC

CONSTANTS NH,            \* reader handles
          MaxChecks,     \* cancellation checks per request
          MaxWrites,
          MaxReqs,       \* requests per reader
          NoWait,        \* mutation: the writer does not wait for clones = 1
          IgnoreCount,   \* mutation: provisional memos are validated without comparing the cancellation count
          NoUncancel     \* mutation: the token is not reset when the outermost call ends

H == 1..NH

VARIABLES clones, flag, ccount, rev, wpc, writes,
          hs,      \* handle -> "idle" | "running" | "dropped"
          tok,     \* handle -> [c: cancelled, d: disabled]
          fix,     \* handle -> nesting depth of cycle-handling executions
          chk,     \* handle -> checks left in the current request
          reqs,    \* handle -> requests started
          prov,    \* provisional memos left behind by abandoned iterations: set of [cc]
          last,    \* handle -> outcome of the last request: "", "ok", "pw", "local"
          cancels, \* handle -> number of cancel() calls not yet consumed by a Local unwind or a reset
          bad      \* set of violated property names (history variable)
vars == <<clones, flag, ccount, rev, wpc, writes, hs, tok, fix, chk, reqs, prov, last, cancels, bad>>

Init ==
    /\ clones = 1 + NH /\ flag = FALSE /\ ccount = 0 /\ rev = 1 /\ wpc = "idle" /\ writes = 0
    /\ hs = [h \in H |-> "idle"] /\ tok = [h \in H |-> [c |-> FALSE, d |-> FALSE]]
    /\ fix = [h \in H |-> 0] /\ chk = [h \in H |-> 0] /\ reqs = [h \in H |-> 0]
    /\ prov = {} /\ last = [h \in H |-> ""] /\ cancels = [h \in H |-> 0] /\ bad = {}

\* ---- readers ----
StartReq(h) ==
    /\ hs[h] = "idle" /\ reqs[h] < MaxReqs /\ last[h] # "pw"
    /\ hs' = [hs EXCEPT ![h] = "running"] /\ chk' = [chk EXCEPT ![h] = MaxChecks]
    /\ reqs' = [reqs EXCEPT ![h] = reqs[h] + 1] /\ last' = [last EXCEPT ![h] = ""]
    /\ UNCHANGED <<clones, flag, ccount, rev, wpc, writes, tok, fix, prov, cancels, bad>>

EndReq(h, outcome) ==
    \* the outermost attach scope ends: the token is reset (uncancel)
    /\ hs' = [hs EXCEPT ![h] = "idle"] /\ fix' = [fix EXCEPT ![h] = 0]
    /\ tok' = [tok EXCEPT ![h] = IF NoUncancel THEN [tok[h] EXCEPT !.d = FALSE] ELSE [c |-> FALSE, d |-> FALSE]]
    /\ cancels' = [cancels EXCEPT ![h] = 0]
    /\ last' = [last EXCEPT ![h] = outcome]

\* unwind_if_revision_cancelled at a tracked-function request
Check(h) ==
    /\ hs[h] = "running" /\ chk[h] > 0
    /\ chk' = [chk EXCEPT ![h] = chk[h] - 1]
    /\ IF tok[h].c /\ ~tok[h].d THEN
            \* Cancelled::Local; an abandoned iteration leaves its provisional memo behind
            /\ EndReq(h, "local")
            /\ prov' = IF fix[h] > 0 THEN prov \cup {[cc |-> ccount]} ELSE prov
            /\ bad' = IF cancels[h] = 0 THEN bad \cup {"LocalOnlyOwn"} ELSE bad
            /\ UNCHANGED <<clones, flag, ccount, rev, wpc, writes, reqs>>
       ELSE IF flag THEN
            /\ EndReq(h, "pw")
            /\ prov' = IF fix[h] > 0 THEN prov \cup {[cc |-> ccount]} ELSE prov
            /\ UNCHANGED <<clones, flag, ccount, rev, wpc, writes, reqs, bad>>
       ELSE UNCHANGED <<clones, flag, ccount, rev, wpc, writes, hs, tok, fix, reqs, prov, last, cancels, bad>>

\* the request of a cycle-handling function passed its cancellation check and starts executing
EnterFix(h) ==
    /\ hs[h] = "running" /\ fix[h] < 2 /\ chk[h] > 0 /\ ~(tok[h].c /\ ~tok[h].d) /\ ~flag
    /\ chk' = [chk EXCEPT ![h] = chk[h] - 1]
    /\ fix' = [fix EXCEPT ![h] = fix[h] + 1] /\ tok' = [tok EXCEPT ![h].d = TRUE]
    /\ UNCHANGED <<clones, flag, ccount, rev, wpc, writes, hs, reqs, prov, last, cancels, bad>>

LeaveFix(h) ==
    /\ hs[h] = "running" /\ fix[h] > 0
    /\ fix' = [fix EXCEPT ![h] = fix[h] - 1] /\ tok' = [tok EXCEPT ![h].d = (fix[h] - 1 > 0)]
    /\ UNCHANGED <<clones, flag, ccount, rev, wpc, writes, hs, chk, reqs, prov, last, cancels, bad>>

\* a fixpoint function finds a provisional memo of an earlier, abandoned iteration
UseProvisional(h) ==
    /\ hs[h] = "running" /\ fix[h] > 0
    /\ \E p \in prov :
          /\ (IgnoreCount \/ p.cc = ccount)
          /\ bad' = IF p.cc # ccount THEN bad \cup {"NoStaleProvisional"} ELSE bad
    /\ UNCHANGED <<clones, flag, ccount, rev, wpc, writes, hs, tok, fix, chk, reqs, prov, last, cancels>>

FinishReq(h) ==
    /\ hs[h] = "running" /\ fix[h] = 0
    /\ EndReq(h, "ok")
    /\ UNCHANGED <<clones, flag, ccount, rev, wpc, writes, chk, reqs, prov, bad>>

\* a reader gives up its handle when it is done or was cancelled by a pending write
DropHandle(h) ==
    /\ hs[h] = "idle" /\ (reqs[h] = MaxReqs \/ last[h] = "pw")
    /\ hs' = [hs EXCEPT ![h] = "dropped"] /\ clones' = clones - 1
    /\ UNCHANGED <<flag, ccount, rev, wpc, writes, tok, fix, chk, reqs, prov, last, cancels, bad>>

\* after a write new clones are made
ReClone(h) ==
    /\ hs[h] = "dropped" /\ wpc = "idle" /\ reqs[h] < MaxReqs
    /\ hs' = [hs EXCEPT ![h] = "idle"] /\ clones' = clones + 1 /\ last' = [last EXCEPT ![h] = ""]
    /\ tok' = [tok EXCEPT ![h] = [c |-> FALSE, d |-> FALSE]]
    /\ UNCHANGED <<flag, ccount, rev, wpc, writes, fix, chk, reqs, prov, cancels, bad>>

TokenCancel(h) ==
    /\ hs[h] # "dropped" /\ cancels[h] < 1
    /\ tok' = [tok EXCEPT ![h].c = TRUE] /\ cancels' = [cancels EXCEPT ![h] = cancels[h] + 1]
    /\ UNCHANGED <<clones, flag, ccount, rev, wpc, writes, hs, fix, chk, reqs, prov, last, bad>>

\* ---- the writer (the remaining handle) ----
WriterSetFlag ==
    /\ wpc = "idle" /\ writes < MaxWrites
    /\ flag' = TRUE /\ wpc' = "wait"
    /\ UNCHANGED <<clones, ccount, rev, writes, hs, tok, fix, chk, reqs, prov, last, cancels, bad>>

WriterProceed ==
    /\ wpc = "wait" /\ (NoWait \/ clones = 1)
    /\ flag' = FALSE /\ ccount' = ccount + 1 /\ rev' = rev + 1 /\ wpc' = "idle" /\ writes' = writes + 1
    /\ bad' = IF \E h \in H : hs[h] # "dropped" THEN bad \cup {"WriterExclusive"} ELSE bad
    /\ UNCHANGED <<clones, hs, tok, fix, chk, reqs, prov, last, cancels>>

Reader(h) == ReClone(h) \/ StartReq(h) \/ Check(h) \/ EnterFix(h) \/ LeaveFix(h) \/ UseProvisional(h) \/ FinishReq(h) \/ DropHandle(h)
AllDone == wpc = "idle" /\ writes = MaxWrites
Next == (\E h \in H : Reader(h) \/ TokenCancel(h)) \/ WriterSetFlag \/ WriterProceed \/ (AllDone /\ UNCHANGED vars)
\* fairness: readers keep making progress (check / leave fixpoints / finish / drop), the writer keeps trying
Progress(h) == StartReq(h) \/ Check(h) \/ LeaveFix(h) \/ FinishReq(h) \/ DropHandle(h)
Spec == Init /\ [][Next]_vars
        /\ (\A h \in H : WF_vars(StartReq(h)) /\ WF_vars(Check(h)) /\ WF_vars(LeaveFix(h)) /\ WF_vars(FinishReq(h)) /\ WF_vars(DropHandle(h)))
        /\ WF_vars(WriterProceed) /\ WF_vars(WriterSetFlag)

NoBad == bad = {}
TypeOk == clones = 1 + Cardinality({h \in H : hs[h] # "dropped"})
\* the token is clear whenever no request is open and no cancel() is outstanding
TokenResetAtOutermost == \A h \in H : (hs[h] = "idle" /\ cancels[h] = 0) => ~tok[h].c
\* C20: a writer whose clones are dropped once they finish or are cancelled always proceeds
WriterEventuallyProceeds == (wpc = "wait") ~> (wpc = "idle")
=============================================================================
