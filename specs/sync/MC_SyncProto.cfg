SPECIFICATION Spec
CONSTANTS
  NT = 3
  Deps <- DepsDiamond
  Reqs <- Reqs3
  MayPanic = {}
  NoRecheck = FALSE
  NoWaitFlag = FALSE
INVARIANTS Inv AtMostOnce NoClaimLeak PanicOnlyIfPanic
PROPERTY Termination
