SPECIFICATION Spec
CONSTANTS
  NT = 3
  Deps <- DepsDiamond
  Reqs <- Reqs3
  MayPanic = {"d", "c"}
  NoRecheck = FALSE
  NoWaitFlag = FALSE
INVARIANTS Inv NoClaimLeak
PROPERTY Termination
