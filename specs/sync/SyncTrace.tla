------------------------------ MODULE SyncTrace ------------------------------
(***************************************************************************)
(* Monitor for the protocol events (hook H1) recorded from real salsa:     *)
(* every event is applied to the abstract protocol state with the action   *)
(* of SyncOps that it corresponds to; the action's guard and the protocol  *)
(* invariants are the property predicates of C19 (waiters are woken exactly*)
(* once with the right outcome; waits never form a cycle; a would-be cycle *)
(* is reported as a cycle) and of the termination part of C16/C18 (nobody  *)
(* is left blocked, no claim is leaked, when a round of readers is over).  *)
(***************************************************************************)
EXTENDS SyncOps, Json, IOUtils

Rec == ndJsonDeserialize(IOEnv.TRACE)
N == Len(Rec)

VARIABLES l, G, aux, rw
vars == <<l, G, aux, rw>>
Rw0 == [on |-> FALSE, q |-> "", t |-> 0]

Viol(id, detail) == PrintT("VIOL|" \o id \o "|" \o ToString(l) \o "|" \o ToString(detail))
Check(id, ok, detail) == IF ok THEN TRUE ELSE Viol(id, detail)

\* aux.exp   : threads that the current critical section must still unblock (with aux.res)
\* aux.cands : candidates of unblock_transfer_target (at most one is unblocked, with Completed)
\* aux.waits / aux.wakes : per-thread counters
\* aux.rel : per thread, the key and outcome of its last ClaimGuard::release
Aux0 == [exp |-> {}, res |-> "", cands |-> {}, tt |-> FALSE, waits |-> <<>>, wakes |-> <<>>, blocked |-> 0,
         releases |-> 0, transfers |-> 0, cycles |-> 0, rel |-> <<>>]

Cnt(f, t) == IF t \in DOMAIN f THEN f[t] ELSE 0
Inc(f, t) == Put(f, t, Cnt(f, t) + 1)

ev == Rec[l]

IsDg == ev.name \in {"dg_block", "dg_cycle", "dg_unblock_key", "dg_unblock", "dg_wake", "dg_transfer",
                      "dg_undo_transfer", "dg_unblock_transferred", "dg_edges"}

\* obligations that must hold before any event other than the expected unblocks is processed
\* (only evaluated at events that need the dependency-graph lock: events made under a shard lock alone can
\* be logged in the middle of another thread's dependency-graph critical section)
Settled ==
    IsDg => Check("C19", aux.exp = {}, <<"release did not unblock every waiting thread", aux.exp, aux.res>>)

OnHkB(Gb) ==
    LET nm == ev.name k == ev.k t == ev.a0 IN
    CASE nm = "sync_claim" ->
            /\ Settled
            /\ Check("C19", ~Has(Gb.sync, k), <<"claimed a key that is already claimed", k, t>>)
            /\ G' = Claim(Gb, k, t)
            /\ aux' = aux
      [] nm = "dg_block" ->
            LET from == ev.a0 to == ev.a1 IN
            /\ Settled
            /\ Check("C19", from # to /\ ~DependsOn(Gb, to, from), <<"entered a wait that closes a cycle of waiting threads", from, to, k>>)
            /\ Check("C19", ~Has(Gb.edges, from), <<"thread blocked twice", from>>)
            /\ G' = Block(Gb, k, from, to)
            /\ aux' = [aux EXCEPT !.waits = Inc(aux.waits, from), !.blocked = aux.blocked + 1, !.cands = {}, !.tt = FALSE]
      [] nm = "dg_cycle" ->
            \* cycle reported: the awaited owner must indeed (transitively) wait for this thread
            /\ Settled
            /\ Check("C19", DependsOn(Gb, ev.a1, ev.a0), <<"cycle reported although the wait would not close a cycle", ev.a0, ev.a1, k>>)
            /\ G' = Gb
            /\ aux' = [aux EXCEPT !.cycles = aux.cycles + 1, !.cands = {}, !.tt = FALSE]
      [] nm = "dg_unblock_key" ->
            /\ Settled
            /\ G' = UnblockKey(Gb, k, ev.text)
            /\ aux' = [aux EXCEPT !.exp = SeqSet(Get(Gb.qd, k, <<>>)), !.res = ev.text, !.cands = {}, !.tt = FALSE]
      [] nm = "dg_unblock" ->
            IF t \in aux.exp THEN
                /\ Check("C19", ev.text = aux.res, <<"waiter unblocked with a different result than the computation ended with", t, ev.text, aux.res>>)
                /\ G' = Gb
                /\ aux' = [aux EXCEPT !.exp = aux.exp \ {t}]
            ELSE IF aux.tt /\ t \in aux.cands THEN
                \* unblock_transfer_target: ownership moved to (the chain of) this thread
                /\ Check("C19", ev.text = "Completed", <<"transfer target unblocked with", ev.text>>)
                /\ G' = RewriteEdges(UnblockOne(Gb, t, "Completed"), rw.q, rw.t)
                /\ aux' = [aux EXCEPT !.cands = {}, !.tt = FALSE]
            ELSE
                /\ Check("C19", FALSE, <<"thread unblocked without a cause (not waiting for the released key, no transfer to it)", t, ev.text, aux.exp, aux.cands>>)
                /\ G' = IF Has(Gb.edges, t) THEN UnblockOne(Gb, t, ev.text) ELSE Gb
                /\ aux' = aux
      [] nm = "dg_wake" ->
            /\ Check("C19", Has(Gb.wr, t) /\ Gb.wr[t] = ev.text, <<"thread resumed without / with a different wait result", t, ev.text>>)
            /\ Check("C19", Cnt(aux.wakes, t) + 1 = Cnt(aux.waits, t), <<"thread resumed more than once per wait", t>>)
            /\ G' = IF Has(Gb.wr, t) THEN Wake(Gb, t) ELSE Gb
            /\ aux' = [aux EXCEPT !.wakes = Inc(aux.wakes, t)]
      [] nm = "sync_release" ->
            LET waiting == Get(Gb.qd, k, <<>>) # <<>> IN
            /\ Settled
            /\ Check("C19", Has(Gb.sync, k), <<"released a key that is not claimed", k>>)
            /\ Check("C19", waiting => ev.a1 = 1, <<"threads wait for the key but the release skips the wake-up (anyone_waiting is false)", k, Get(Gb.qd, k, <<>>)>>)
            /\ G' = ReleaseEntry(Gb, k)
            \* (an event made under a shard lock only: it may fall between a transfer and the unblock of its target)
            /\ aux' = [aux EXCEPT !.releases = aux.releases + 1, !.rel = Put(aux.rel, ev.t, [k |-> k, text |-> ev.text])]
      [] nm = "sync_release_self" ->
            /\ Settled
            /\ G' = IF Has(Gb.sync, k) THEN ReleaseSelf(Gb, k) ELSE Gb
            /\ aux' = aux
      [] nm = "sync_transfer" ->
            /\ Settled
            /\ Check("C19", Has(Gb.sync, k) /\ Has(Gb.sync, ev.k2), <<"transfer between unclaimed keys", k, ev.k2>>)
            /\ G' = IF Has(Gb.sync, k) THEN SyncTransfer(Gb, k, ev.k2) ELSE Gb
            /\ aux' = aux
      [] nm = "dg_transfer" ->
            LET cur == ev.a0 newT == ev.a1
                changed == ThreadChanged(Gb, k, cur, ev.k2, newT)
                G1 == TransferMaps(Gb, k, ev.k2, newT)
                cands == IF changed THEN TransferTargets(G1, k, newT) ELSE {}
                G2 == G1
            IN
            /\ Settled
            /\ Check("C19", newT = cur \/ DependsOn(Gb, newT, cur), <<"lock transferred to a query whose thread does not wait for this one", k, ev.k2, cur, newT>>)
            /\ G' = G2
            /\ aux' = [aux EXCEPT !.cands = cands, !.tt = changed, !.transfers = aux.transfers + 1]
      [] nm = "dg_edges" ->
            \* state projection logged at the end of transfer_lock (after unblock_transfer_target and
            \* update_transferred_edges): every thread's wait-for edge equals the model's
            LET impl == {<<ev.d[i][1], ev.d[i][2]>> : i \in 1..Len(ev.d)}
                model == {<<th, Gb.edges[th].to>> : th \in DOMAIN Gb.edges}
            IN
            /\ Settled
            /\ Check("C19", impl = model, <<"wait-for edges after a lock transfer differ from the protocol model (stale blocked-on thread)", k, ev.k2, impl, model>>)
            /\ G' = Gb
            /\ aux' = [aux EXCEPT !.cands = {}, !.tt = FALSE]
      [] nm = "dg_undo_transfer" ->
            /\ Settled
            /\ G' = UndoTransfer(Gb, k)
            /\ aux' = aux
      [] nm = "dg_unblock_transferred" ->
            /\ Settled
            \* the queries whose lock was transferred to k end with the outcome k's release ended with
            /\ (ev.t \in DOMAIN aux.rel /\ aux.rel[ev.t].k = k) =>
                  Check("C19", ev.text = aux.rel[ev.t].text,
                        <<"waiters of queries transferred to a released query are handed a different outcome than the release", k, ev.text, aux.rel[ev.t].text>>)
            /\ G' = UnblockTransferredMaps(Gb, k)
            /\ aux' = aux
      [] nm = "sync_claim_transferred" ->
            /\ Settled
            /\ IF ev.text = "ImTheOwner"
               THEN /\ Check("C19", ImTheOwner(Gb, k, t), <<"claimed a transferred query without owning its root", k, t>>)
                    /\ G' = IF Has(Gb.sync, k) THEN ClaimTransferredOwner(Gb, k, t) ELSE Claim(Gb, k, t)
               ELSE /\ Check("C19", ~Has(Gb.tr, k), <<"claimed a transferred query as released while it is still owned", k, t, Gb.tr>>)
                    /\ G' = Claim(Gb, k, t)
            /\ aux' = aux
      [] OTHER -> G' = Gb /\ aux' = aux

\* update_transferred_edges runs after unblock_transfer_target inside transfer_lock (one critical section
\* of the dependency graph): the rewrite of a transfer is applied after the unblock of the transfer target
\* if one follows, otherwise before the next dependency-graph event.
IsTTUnblock == ev.name = "dg_unblock" /\ aux.tt /\ ev.a0 \in aux.cands /\ ev.a0 \notin aux.exp
ApplyRw == rw.on /\ IsDg /\ ~IsTTUnblock
OnHk ==
    LET Gb == IF ApplyRw THEN RewriteEdges(G, rw.q, rw.t) ELSE G IN
    /\ OnHkB(Gb)
    /\ rw' = IF ev.name = "dg_transfer"
             THEN [on |-> ThreadChanged(Gb, ev.k, ev.a0, ev.k2, ev.a1), q |-> ev.k, t |-> ev.a1]
             ELSE IF ApplyRw \/ IsTTUnblock THEN Rw0 ELSE rw

\* end of a round of readers: nobody is left waiting, nothing is left claimed
OnRoundEnd ==
    /\ Check("C19", aux.exp = {}, <<"release did not unblock every waiting thread", aux.exp, aux.res>>)
    /\ Check("C19", DOMAIN G.edges = {} /\ DOMAIN G.wr = {}, <<"threads left blocked at the end of a round", G.edges, G.wr>>)
    /\ Check("C19", \A t \in DOMAIN aux.waits : Cnt(aux.wakes, t) = aux.waits[t], <<"a waiting thread was never resumed", aux.waits, aux.wakes>>)
    /\ Check("C19", \A k \in DOMAIN G.sync : G.sync[k].owner = -1, <<"claims leaked at the end of a round", G.sync>>)
    /\ G' = G0
    /\ rw' = Rw0
    /\ aux' = [Aux0 EXCEPT !.blocked = aux.blocked, !.releases = aux.releases, !.transfers = aux.transfers, !.cycles = aux.cycles]

OnHang ==
    /\ Check("C19", FALSE, <<"threads did not terminate (hang)", G.edges, G.wr>>)
    /\ Check("C16", FALSE, <<"threads did not terminate (hang)", G.edges>>)
    /\ G' = G /\ aux' = aux /\ rw' = rw

Inv ==
    /\ Check("C19", EdgesAcyclic(G'), <<"wait-for graph has a cycle", G'.edges>>)
    /\ Check("C19", TransferForest(G'), <<"transferred map has a cycle", G'.tr>>)
    /\ Check("C19", EdgeIffDependent(G'), <<"edges and query_dependents disagree", G'.edges, G'.qd>>)
    /\ Check("C19", ResultOnlyForUnblocked(G'), <<"wait result for a blocked thread", G'.wr>>)

TraceInit == l = 1 /\ G = G0 /\ aux = Aux0 /\ rw = Rw0

TraceNext ==
    /\ l <= N
    /\ l' = l + 1
    /\ CASE ev.e = "hk" -> OnHk /\ Inv
         [] ev.e = "round_end" -> OnRoundEnd
         [] ev.e = "reset" -> G' = G0 /\ aux' = Aux0 /\ rw' = Rw0
         [] ev.e = "hang" -> OnHang
         [] ev.e = "dbdrop_end" ->
               /\ PrintT("STAT|" \o ToString(aux.blocked) \o "|" \o ToString(aux.releases) \o "|" \o ToString(aux.transfers) \o "|" \o ToString(aux.cycles))
               /\ G' = G /\ aux' = aux /\ rw' = rw
         [] OTHER -> G' = G /\ aux' = aux /\ rw' = rw

TraceSpec == TraceInit /\ [][TraceNext]_vars

TraceAccepted ==
    LET d == TLCGet("stats").diameter IN
    IF d - 1 = N THEN TRUE ELSE Print(<<"STUCK", d, IF d <= N THEN Rec[d] ELSE "eof">>, FALSE)
=============================================================================
