SPECIFICATION Spec
CONSTANTS
  NT = 2
  Keys = {"a", "b", "c"}
  MaxSteps = 9
  AllowPanic = FALSE
INVARIANTS Inv ClaimsConsistent
CHECK_DEADLOCK FALSE
