------------------------------ MODULE SyncProto ------------------------------
(***************************************************************************)
(* Generative specification of concurrent readers over the claim / wait    *)
(* protocol (SyncOps): every thread evaluates its requests with the        *)
(* fetch_cold loop of src/function/fetch.rs on a shared memo table.        *)
(*                                                                         *)
(*   fetch(k):  hot hit  |  try_claim -> Claimed | Running(block, retry)   *)
(*              after the claim: re-check the memo, else execute the       *)
(*              dependencies in order, insert the memo, release.           *)
(*                                                                         *)
(* The release is two critical sections as in ClaimGuard::release:         *)
(*   R1 (shard lock)  remove the entry, read anyone_waiting                *)
(*   R2 (dg lock)     unblock_runtimes_blocked_on                          *)
(* try_claim + Runtime::block + add_edge is one step: the shard lock is    *)
(* held until the edge has been added.                                     *)
(*                                                                         *)
(* Checked by TLC for all schedules: the protocol invariants of SyncOps    *)
(* (C19), at most one execution per key (C17), no deadlock and, under weak *)
(* fairness, termination of every thread (C16).  A thread may panic inside *)
(* an execution (PanicAt): its claims are released with Panicked and       *)
(* waiters end with a propagated panic instead of hanging (C14/C22).       *)
(***************************************************************************)
EXTENDS SyncOps

CONSTANTS NT,          \* number of threads
          Deps,        \* key -> sequence of keys (a DAG)
          Reqs,        \* thread -> sequence of requested keys
          MayPanic,    \* set of keys whose execution may panic
          NoRecheck,   \* mutation switch: skip the memo re-check after claiming
          NoWaitFlag   \* mutation switch: do not set anyone_waiting when blocking

Threads == 1..NT
Keys == DOMAIN Deps

VARIABLES G,       \* protocol state (SyncOps)
          memo,    \* keys with a verified memo
          stk,     \* thread -> stack of frames [k, i, ph]
          rq,      \* thread -> index of the current request
          execs,   \* key -> number of executions
          outcome  \* thread -> "run" | "done" | "panicked"
vars == <<G, memo, stk, rq, execs, outcome>>

Frame(k) == [k |-> k, i |-> 1, ph |-> "start", aw |-> FALSE]
Top(t) == stk[t][Len(stk[t])]
SetTop(t, f) == [stk EXCEPT ![t] = [stk[t] EXCEPT ![Len(stk[t])] = f]]
Pop(t) == [stk EXCEPT ![t] = SubSeq(stk[t], 1, Len(stk[t]) - 1)]
Push(t, f) == [stk EXCEPT ![t] = Append(stk[t], f)]

Init ==
    /\ G = G0
    /\ memo = {}
    /\ stk = [t \in Threads |-> <<>>]
    /\ rq = [t \in Threads |-> 1]
    /\ execs = [k \in Keys |-> 0]
    /\ outcome = [t \in Threads |-> "run"]

\* next top-level request
NextReq(t) ==
    /\ outcome[t] = "run" /\ stk[t] = <<>> /\ rq[t] <= Len(Reqs[t])
    /\ stk' = Push(t, Frame(Reqs[t][rq[t]]))
    /\ rq' = [rq EXCEPT ![t] = rq[t] + 1]
    /\ UNCHANGED <<G, memo, execs, outcome>>

Finish(t) ==
    /\ outcome[t] = "run" /\ stk[t] = <<>> /\ rq[t] > Len(Reqs[t])
    /\ outcome' = [outcome EXCEPT ![t] = "done"]
    /\ UNCHANGED <<G, memo, stk, rq, execs>>

\* fetch_hot: a verified memo is returned without claiming
Hot(t) ==
    /\ outcome[t] = "run" /\ stk[t] # <<>> /\ Top(t).ph = "start" /\ ~Has(G.edges, t) /\ ~Has(G.wr, t)
    /\ IF Top(t).k \in memo THEN stk' = Pop(t) ELSE stk' = SetTop(t, [Top(t) EXCEPT !.ph = "cold"])
    /\ UNCHANGED <<G, memo, rq, execs, outcome>>

\* fetch_cold: try_claim (a separate step: the memo may appear between the hot probe and the claim)
Start(t) ==
    /\ outcome[t] = "run" /\ stk[t] # <<>> /\ Top(t).ph = "cold" /\ ~Has(G.edges, t) /\ ~Has(G.wr, t)
    /\ LET k == Top(t).k IN
       IF ~Has(G.sync, k) THEN
            /\ G' = Claim(G, k, t)
            /\ stk' = SetTop(t, [Top(t) EXCEPT !.ph = "claimed"])
            /\ UNCHANGED <<memo, rq, execs, outcome>>
       ELSE LET o == G.sync[k].owner IN
            /\ o # t /\ ~DependsOn(G, o, t)          \* (a DAG never produces a cycle)
            /\ G' = IF NoWaitFlag THEN [Block(G, k, t, o) EXCEPT !.sync = G.sync] ELSE Block(G, k, t, o)
            \* after the wake-up the whole fetch is retried (refresh_memo loop)
            /\ stk' = SetTop(t, [Top(t) EXCEPT !.ph = "start"])
            /\ UNCHANGED <<memo, rq, execs, outcome>>

\* block_on loop: woken with a result
Resume(t) ==
    /\ Has(G.wr, t)
    /\ G' = Wake(G, t)
    /\ IF G.wr[t] = "Panicked"
       THEN \* Cancelled::PropagatedPanic: unwind the whole stack of this thread, releasing its claims
            /\ outcome' = [outcome EXCEPT ![t] = "unwinding"]
            /\ UNCHANGED <<memo, stk, rq, execs>>
       ELSE UNCHANGED <<memo, stk, rq, execs, outcome>>        \* retry the fetch

\* after the claim: re-check the memo (it may have been produced while we waited)
Claimed(t) ==
    /\ outcome[t] = "run" /\ stk[t] # <<>> /\ Top(t).ph = "claimed"
    /\ LET k == Top(t).k IN
       IF k \in memo /\ ~NoRecheck
       THEN stk' = SetTop(t, [Top(t) EXCEPT !.ph = "release"]) /\ UNCHANGED execs
       ELSE /\ execs' = [execs EXCEPT ![k] = execs[k] + 1]
            /\ stk' = SetTop(t, [Top(t) EXCEPT !.ph = "exec"])
    /\ UNCHANGED <<G, memo, rq, outcome>>

\* user code panics inside an execution
PanicAt(t) ==
    /\ outcome[t] = "run" /\ stk[t] # <<>> /\ Top(t).ph = "exec" /\ Top(t).k \in MayPanic
    /\ outcome' = [outcome EXCEPT ![t] = "unwinding"]
    /\ UNCHANGED <<G, memo, stk, rq, execs>>

\* ClaimGuard::drop, first critical section (shard lock)
Release1(t, res) ==
    /\ stk[t] # <<>>
    /\ LET f == Top(t) k == f.k IN
       /\ Has(G.sync, k) /\ G.sync[k].owner = t
       /\ G' = ReleaseEntry(G, k)
       /\ stk' = SetTop(t, [f EXCEPT !.ph = "release2", !.aw = G.sync[k].aw])

\* second critical section (dependency graph lock): wake the waiters
Release2(t, res) ==
    /\ stk[t] # <<>> /\ Top(t).ph = "release2"
    /\ G' = IF Top(t).aw THEN UnblockKey(G, Top(t).k, res) ELSE G
    /\ stk' = Pop(t)

ReleaseOk(t) ==
    /\ outcome[t] = "run" /\ stk[t] # <<>>
    /\ \/ (Top(t).ph = "release" /\ Release1(t, "Completed"))
       \/ Release2(t, "Completed")
    /\ UNCHANGED <<memo, rq, execs, outcome>>

\* unwinding: frames are dropped innermost first; claimed ones are released with Panicked
Unwind(t) ==
    /\ outcome[t] = "unwinding"
    /\ IF stk[t] = <<>>
       THEN /\ outcome' = [outcome EXCEPT ![t] = "panicked"] /\ UNCHANGED <<G, memo, stk, rq, execs>>
       ELSE /\ UNCHANGED <<memo, rq, execs, outcome>>
            /\ IF Top(t).ph = "release2" THEN Release2(t, "Panicked")
               ELSE IF Top(t).ph \in {"claimed", "exec", "release"} THEN Release1(t, "Panicked")
               ELSE stk' = Pop(t) /\ G' = G

\* execute: fetch the next dependency, or complete (insert the memo)
Exec(t) ==
    /\ outcome[t] = "run" /\ stk[t] # <<>> /\ Top(t).ph = "exec"
    /\ LET f == Top(t) k == f.k IN
       IF f.i <= Len(Deps[k])
       THEN /\ stk' = [stk EXCEPT ![t] = Append([stk[t] EXCEPT ![Len(stk[t])] = [f EXCEPT !.i = f.i + 1]], Frame(Deps[k][f.i]))]
            /\ UNCHANGED <<G, memo, rq, execs, outcome>>
       ELSE /\ memo' = memo \cup {k}
            /\ stk' = SetTop(t, [f EXCEPT !.ph = "release"])
            /\ UNCHANGED <<G, rq, execs, outcome>>

Step(t) == NextReq(t) \/ Finish(t) \/ Hot(t) \/ Start(t) \/ Resume(t) \/ Claimed(t) \/ Exec(t) \/ PanicAt(t)
           \/ ReleaseOk(t) \/ Unwind(t)

AllEnded == \A t \in Threads : outcome[t] \in {"done", "panicked"}
Next == (\E t \in Threads : Step(t)) \/ (AllEnded /\ UNCHANGED vars)
Spec == Init /\ [][Next]_vars /\ \A t \in Threads : WF_vars(Step(t))

---------------------------------------------------------------------------
Inv == ProtoInv(G)
AtMostOnce == \A k \in Keys : execs[k] <= 1                       \* C17 (without panics)
NoClaimLeak == AllEnded => (DOMAIN G.sync = {} /\ DOMAIN G.edges = {} /\ DOMAIN G.wr = {})
\* a thread only ends panicked if a panic really occurred; otherwise every request completed
PanicOnlyIfPanic == (MayPanic = {}) => \A t \in Threads : outcome[t] # "panicked"
Termination == <>AllEnded                                         \* C16 / C14 / C22: nobody hangs
=============================================================================
