------------------------------- MODULE SyncOps -------------------------------
(***************************************************************************)
(* Abstract state and atomic actions of salsa's claim / wait / transfer     *)
(* protocol (src/function/sync.rs SyncTable + ClaimGuard,                  *)
(* src/runtime/dependency_graph.rs DependencyGraph, src/runtime.rs block). *)
(* Pure operators over a record G, shared by the generative specification  *)
(* (SyncProto.tla) and the trace monitor (SyncTrace.tla).                  *)
(*                                                                         *)
(*  G.sync : key -> [owner, aw, tt, c2]    SyncState; owner = -1: Transferred*)
(*  G.edges: thread -> [to, key]           DependencyGraph.edges            *)
(*  G.qd   : key -> Seq(thread)            query_dependents                 *)
(*  G.wr   : thread -> result              wait_results                     *)
(*  G.tr   : key -> [th, owner]            transferred                      *)
(*  G.td   : key -> Seq(key)               transferred_dependents           *)
(***************************************************************************)
EXTENDS Integers, Sequences, FiniteSets, TLC

G0 == [sync |-> <<>>, edges |-> <<>>, qd |-> <<>>, wr |-> <<>>, tr |-> <<>>, td |-> <<>>]

Put(f, k, v) == [x \in (DOMAIN f) \cup {k} |-> IF x = k THEN v ELSE f[x]]
Del(f, k) == [x \in (DOMAIN f) \ {k} |-> f[x]]
DelSet(f, S) == [x \in (DOMAIN f) \ S |-> f[x]]
Has(f, k) == k \in DOMAIN f
SeqSet(s) == {s[i] : i \in 1..Len(s)}
SeqWithout(s, x) == SelectSeq(s, LAMBDA y : y # x)
Get(f, k, dflt) == IF k \in DOMAIN f THEN f[k] ELSE dflt

\* Edges.depends_on(from, to): follow the blocked-on chain of `from`
RECURSIVE DependsOnN(_, _, _, _)
DependsOnN(G, from, to, n) ==
    IF from = to THEN TRUE
    ELSE IF n = 0 \/ ~Has(G.edges, from) THEN FALSE
    ELSE DependsOnN(G, G.edges[from].to, to, n - 1)
\* salsa: `while let Some(q) = edges.get(p) { if q == to return true; p = q }  p == to`
DependsOn(G, from, to) == DependsOnN(G, from, to, Cardinality(DOMAIN G.edges) + 1)

\* a wait-for cycle among blocked threads (must never exist)
EdgesAcyclic(G) ==
    \A t \in DOMAIN G.edges : ~DependsOnN(G, G.edges[t].to, t, Cardinality(DOMAIN G.edges) + 1)

\* thread_id_of_transferred_query(key, skip): -1 if key is not transferred
RECURSIVE ResolveN(_, _, _, _, _)
ResolveN(G, cur, skip, th, n) ==
    IF n = 0 \/ ~Has(G.tr, cur) THEN th
    ELSE LET nx == G.tr[cur] IN
         ResolveN(G, nx.owner, skip, IF nx.owner = skip THEN th ELSE nx.th, n - 1)
ThreadOfTransferred(G, key, skip) ==
    IF ~Has(G.tr, key) THEN -1
    ELSE ResolveN(G, G.tr[key].owner, skip, G.tr[key].th, Cardinality(DOMAIN G.tr) + 1)

\* `transferred` must be a forest (thread_id_of_transferred_query would loop otherwise)
RECURSIVE TrReachN(_, _, _, _)
TrReachN(G, from, to, n) ==
    IF ~Has(G.tr, from) \/ n = 0 THEN FALSE
    ELSE G.tr[from].owner = to \/ TrReachN(G, G.tr[from].owner, to, n - 1)
TransferForest(G) == \A k \in DOMAIN G.tr : ~TrReachN(G, k, k, Cardinality(DOMAIN G.tr) + 1)

\* transferred_dependents is the inverse of transferred
TdInverse(G) ==
    /\ \A k \in DOMAIN G.tr : Has(G.td, G.tr[k].owner) /\ k \in SeqSet(G.td[G.tr[k].owner])
    /\ \A o \in DOMAIN G.td : \A k \in SeqSet(G.td[o]) : Has(G.tr, k) /\ G.tr[k].owner = o

\* a thread has an edge iff it is listed as dependent of exactly the key of that edge
EdgeIffDependent(G) ==
    /\ \A t \in DOMAIN G.edges : Has(G.qd, G.edges[t].key) /\ t \in SeqSet(G.qd[G.edges[t].key])
    /\ \A k \in DOMAIN G.qd : \A t \in SeqSet(G.qd[k]) : Has(G.edges, t) /\ G.edges[t].key = k
\* a wait result exists only for threads that are not blocked any more
ResultOnlyForUnblocked(G) == \A t \in DOMAIN G.wr : ~Has(G.edges, t)

ProtoInv(G) == EdgesAcyclic(G) /\ TransferForest(G) /\ TdInverse(G) /\ EdgeIffDependent(G) /\ ResultOnlyForUnblocked(G)

---------------------------------------------------------------------------
\* actions (each is one critical section of the code)

\* SyncTable::try_claim, vacant arm
Claim(G, k, t) == [G EXCEPT !.sync = Put(G.sync, k, [owner |-> t, aw |-> FALSE, tt |-> FALSE, c2 |-> FALSE])]

\* Runtime::block + DependencyGraph::add_edge (the shard lock is released inside)
CanBlock(G, from, to) == from # to /\ ~Has(G.edges, from) /\ ~DependsOn(G, to, from)
Block(G, k, from, to) ==
    [G EXCEPT !.edges = Put(G.edges, from, [to |-> to, key |-> k]),
              !.qd = Put(G.qd, k, Append(Get(G.qd, k, <<>>), from)),
              !.sync = IF Has(G.sync, k) THEN Put(G.sync, k, [G.sync[k] EXCEPT !.aw = TRUE]) ELSE G.sync]

\* unblock_runtime
Unblock(G, t, res) ==
    [G EXCEPT !.edges = Del(G.edges, t), !.wr = Put(G.wr, t, res)]

\* unblock_runtimes_blocked_on(key, res): every dependent gets the result
UnblockKey(G, k, res) ==
    LET deps == Get(G.qd, k, <<>>) IN
    [G EXCEPT !.qd = Del(G.qd, k),
              !.edges = DelSet(G.edges, SeqSet(deps)),
              !.wr = [x \in (DOMAIN G.wr) \cup SeqSet(deps) |-> IF x \in SeqSet(deps) THEN res ELSE G.wr[x]]]

\* block_on loop: the woken thread consumes its result
Wake(G, t) == [G EXCEPT !.wr = Del(G.wr, t)]

\* ClaimGuard::release removes the entry (the dg part follows as separate critical sections)
ReleaseEntry(G, k) == [G EXCEPT !.sync = Del(G.sync, k)]

\* release_self of a re-entrantly claimed query: back to Transferred
ReleaseSelf(G, k) == [G EXCEPT !.sync = Put(G.sync, k, [G.sync[k] EXCEPT !.owner = -1, !.c2 = FALSE])]

\* ClaimGuard::transfer, sync-table part: mark_as_transfer_target + own entry becomes Transferred
SyncTransfer(G, k, newOwner) ==
    LET s1 == Put(G.sync, k, [G.sync[k] EXCEPT !.owner = -1, !.c2 = FALSE]) IN
    [G EXCEPT !.sync = IF Has(s1, newOwner) THEN Put(s1, newOwner, [s1[newOwner] EXCEPT !.aw = TRUE, !.tt = TRUE]) ELSE s1]

\* undo_transfer_lock
UndoTransfer(G, k) ==
    IF ~Has(G.tr, k) THEN G
    ELSE LET o == G.tr[k].owner IN
         [G EXCEPT !.tr = Del(G.tr, k),
                   !.td = IF Has(G.td, o) THEN Put(G.td, o, SeqWithout(G.td[o], k)) ELSE G.td]

\* all keys whose lock is (transitively) owned by k
RECURSIVE SubtreeN(_, _, _)
SubtreeN(G, ks, n) ==
    LET nxt == UNION {SeqSet(Get(G.td, k, <<>>)) : k \in ks} \ ks IN
    IF nxt = {} \/ n = 0 THEN ks ELSE SubtreeN(G, ks \cup nxt, n - 1)
Subtree(G, k) == SubtreeN(G, {k}, Cardinality(DOMAIN G.td) + 1)

\* unblock_runtimes_blocked_on_transferred_queries_owned_by: map part (the per-key unblocks are
\* UnblockKey steps of the same critical section)
UnblockTransferredMaps(G, k) ==
    LET G1 == UndoTransfer(G, k)
        sub == Subtree(G1, k)
    IN [G1 EXCEPT !.tr = DelSet(G1.tr, sub), !.td = DelSet(G1.td, sub)]

\* threads blocked on a key of the subtree of `query`
SubtreeBlocked(G, query) == UNION {SeqSet(Get(G.qd, k, <<>>)) : k \in Subtree(G, query)}

\* transfer_lock: map update with re-rooting (keeps `transferred` acyclic)
RECURSIVE ReRootN(_, _, _, _, _, _, _)
\* walk from newOwner along tr; the first edge source -> query is redirected to oldOwner (or removed)
ReRootN(G, cur, query, oldOwner, oldTh, newOwner, n) ==
    IF n = 0 \/ ~Has(G.tr, cur) THEN G
    ELSE IF G.tr[cur].owner = query THEN
        LET G1 == [G EXCEPT !.td = Put(G.td, query, SeqWithout(Get(G.td, query, <<>>), cur))] IN
        IF oldOwner = newOwner
        THEN [G1 EXCEPT !.tr = Del(G1.tr, cur)]
        ELSE [G1 EXCEPT !.tr = Put(G1.tr, cur, [th |-> oldTh, owner |-> oldOwner]),
                        !.td = Put(G1.td, oldOwner, Append(Get(G1.td, oldOwner, <<>>), cur))]
    ELSE ReRootN(G, G.tr[cur].owner, query, oldOwner, oldTh, newOwner, n - 1)

TransferMaps(G, query, newOwner, newTh) ==
    IF ~Has(G.tr, query) THEN
        [G EXCEPT !.tr = Put(G.tr, query, [th |-> newTh, owner |-> newOwner]),
                  !.td = Put(G.td, newOwner, Append(Get(G.td, newOwner, <<>>), query))]
    ELSE IF G.tr[query] = [th |-> newTh, owner |-> newOwner] THEN G
    ELSE
        LET old == G.tr[query]
            G1 == [G EXCEPT !.td = Put(G.td, old.owner, SeqWithout(Get(G.td, old.owner, <<>>), query)),
                            !.tr = Put(G.tr, query, [th |-> newTh, owner |-> newOwner])]
            G2 == ReRootN(G1, newOwner, query, old.owner, old.th, newOwner, Cardinality(DOMAIN G1.tr) + 1)
        IN [G2 EXCEPT !.td = Put(G2.td, newOwner, Append(Get(G2.td, newOwner, <<>>), query))]

\* did transfer_lock consider the owning thread changed?
ThreadChanged(G, query, curTh, newOwner, newTh) ==
    IF ~Has(G.tr, query) THEN curTh # newTh
    ELSE G.tr[query] # [th |-> newTh, owner |-> newOwner]

\* update_transferred_edges: every thread blocked in the subtree now waits for the new owner thread
RewriteEdges(G, query, newTh) ==
    LET bs == SubtreeBlocked(G, query) IN
    [G EXCEPT !.edges = [t \in DOMAIN G.edges |-> IF t \in bs THEN [G.edges[t] EXCEPT !.to = newTh] ELSE G.edges[t]]]

\* candidates of unblock_transfer_target: a thread blocked in the subtree that is the new owner thread
\* or that the new owner thread (transitively) waits for
TransferTargets(G, query, newTh) ==
    {t \in SubtreeBlocked(G, query) : t = newTh \/ DependsOn(G, newTh, t)}

\* removal of one blocked thread from its key's dependents list (unblock_transfer_target)
UnblockOne(G, t, res) ==
    LET k == G.edges[t].key
        rest == SeqWithout(G.qd[k], t)
    IN [G EXCEPT !.qd = IF rest = <<>> THEN Del(G.qd, k) ELSE Put(G.qd, k, rest),
                 !.edges = Del(G.edges, t), !.wr = Put(G.wr, t, res)]

\* try_claim_transferred outcomes
ClaimTransferredOwner(G, k, t) == [G EXCEPT !.sync = Put(G.sync, k, [G.sync[k] EXCEPT !.owner = t, !.c2 = TRUE])]
ImTheOwner(G, k, t) ==
    LET o == ThreadOfTransferred(G, k, "") IN o >= 0 /\ (o = t \/ DependsOn(G, o, t))
=============================================================================
