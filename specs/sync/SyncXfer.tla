------------------------------- MODULE SyncXfer -------------------------------
(***************************************************************************)
(* The lock-transfer part of the protocol (cross-thread fixpoint cycles)   *)
(* under a most general client: threads claim keys (nested), detect cycles,*)
(* transfer the lock of the query they finish to the cycle head they       *)
(* depend on, claim transferred queries re-entrantly, release, panic.      *)
(* All protocol steps are the SyncOps actions that SyncTrace replays on    *)
(* recorded salsa events; here TLC explores every interleaving within a    *)
(* step bound and checks the protocol invariants (C18/C19):                *)
(*   EdgesAcyclic, TransferForest, TdInverse, EdgeIffDependent,            *)
(*   ResultOnlyForUnblocked.                                               *)
(*                                                                         *)
(* Client obligations that the code relies on (guards below):              *)
(*  (T1) the new owner of a transfer is an active query whose thread is    *)
(*       this thread or (transitively) waits for it (debug_assert in       *)
(*       transfer_lock);                                                   *)
(*  (T2) a panic unwinds the whole stack of its thread; a waiter woken     *)
(*       with Panicked unwinds too;                                        *)
(*  (T3) a thread only transfers the innermost query it holds.             *)
(***************************************************************************)
EXTENDS SyncOps

CONSTANTS NT, Keys, MaxSteps, AllowPanic

Threads == 1..NT

VARIABLES G, stk, unw, steps
vars == <<G, stk, unw, steps>>

\* stk[t]: sequence of [k, mode]  (mode "d" default, "s" self-only = re-entrant claim of a transferred query)
Init == G = G0 /\ stk = [t \in Threads |-> <<>>] /\ unw = [t \in Threads |-> FALSE] /\ steps = 0

Free(t) == ~Has(G.edges, t) /\ ~Has(G.wr, t) /\ ~unw[t]
Holds(t, k) == \E i \in 1..Len(stk[t]) : stk[t][i].k = k
Active(k) == \E t \in Threads : Holds(t, k)
Tick == steps' = steps + 1 /\ steps < MaxSteps

\* try_claim
TryClaim(t, k) ==
    /\ Free(t) /\ ~Holds(t, k) /\ Tick
    /\ IF ~Has(G.sync, k) THEN
            G' = Claim(G, k, t) /\ stk' = [stk EXCEPT ![t] = Append(stk[t], [k |-> k, mode |-> "d"])] /\ UNCHANGED unw
       ELSE IF G.sync[k].owner >= 0 THEN
            LET o == G.sync[k].owner IN
            IF o = t \/ DependsOn(G, o, t) THEN UNCHANGED <<G, stk, unw>>       \* ClaimResult::Cycle
            ELSE G' = Block(G, k, t, o) /\ UNCHANGED <<stk, unw>>
       ELSE \* Transferred
            LET ot == ThreadOfTransferred(G, k, "") IN
            IF ot = -1 THEN       \* Released: the transfer is stale, claim afresh
                G' = Claim(G, k, t) /\ stk' = [stk EXCEPT ![t] = Append(stk[t], [k |-> k, mode |-> "d"])] /\ UNCHANGED unw
            ELSE IF ot = t \/ DependsOn(G, ot, t) THEN   \* ImTheOwner: re-entrant claim
                G' = ClaimTransferredOwner(G, k, t)
                /\ stk' = [stk EXCEPT ![t] = Append(stk[t], [k |-> k, mode |-> "s"])] /\ UNCHANGED unw
            ELSE G' = Block(G, k, t, ot) /\ UNCHANGED <<stk, unw>>

Wake1(t) ==
    /\ Has(G.wr, t) /\ Tick
    /\ G' = Wake(G, t)
    /\ unw' = [unw EXCEPT ![t] = (G.wr[t] = "Panicked")]      \* (T2) propagated panic
    /\ UNCHANGED stk

\* ClaimGuard::release (after the entry was removed): undo_transfer_lock, unblock waiters, unblock transferred
DgRelease(g, k, st, res) ==
    IF ~st.aw THEN g
    ELSE LET g1 == IF st.c2 THEN UndoTransfer(g, k) ELSE g
             g2 == UnblockKey(g1, k, res)
         IN IF ~st.tt THEN g2
            ELSE LET sub == Subtree(UndoTransfer(g2, k), k) \ {k}
                     g3 == UnblockTransferredMaps(g2, k)
                     \* every query whose lock was (transitively) owned by k: its waiters are unblocked
                     RECURSIVE UnAll(_, _)
                     UnAll(gg, ks) == IF ks = {} THEN gg ELSE LET q == CHOOSE x \in ks : TRUE IN UnAll(UnblockKey(gg, q, res), ks \ {q})
                 IN UnAll(g3, sub)

\* drop of the innermost claim (completed)
Release(t) ==
    /\ Free(t) /\ stk[t] # <<>> /\ Tick
    /\ LET f == stk[t][Len(stk[t])] k == f.k st == G.sync[k] IN
       /\ stk' = [stk EXCEPT ![t] = SubSeq(stk[t], 1, Len(stk[t]) - 1)]
       /\ IF f.mode = "s" /\ st.c2 THEN G' = ReleaseSelf(G, k)
          ELSE G' = DgRelease(ReleaseEntry(G, k), k, st, "Completed")
       /\ UNCHANGED unw

\* the innermost query k of t completes as participant of the cycle headed by q: transfer its lock to q
Transfer(t, q) ==
    /\ Free(t) /\ stk[t] # <<>> /\ Tick
    /\ LET f == stk[t][Len(stk[t])] k == f.k IN
       /\ k # q /\ Has(G.sync, q)
       /\ LET qo == G.sync[q].owner
              newT == IF qo >= 0 THEN qo ELSE ThreadOfTransferred(G, q, k)
          IN /\ newT >= 1
             /\ (newT = t \/ DependsOn(G, newT, t))                         \* (T1)
             /\ Active(q)
             /\ LET g0 == SyncTransfer(G, k, q)
                    changed == ThreadChanged(g0, k, t, q, newT)
                    g1 == TransferMaps(g0, k, q, newT)
                    cands == IF changed THEN TransferTargets(g1, k, newT) ELSE {}
                IN \E c \in (IF cands = {} THEN {0} ELSE cands) :
                      LET g2 == IF c = 0 THEN g1 ELSE UnblockOne(g1, c, "Completed")
                          g3 == IF changed THEN RewriteEdges(g2, k, newT) ELSE g2
                          g4 == IF changed /\ t # newT /\ ~DependsOn(g3, newT, t) THEN Block(g3, q, t, newT) ELSE g3
                      IN G' = g4
       /\ stk' = [stk EXCEPT ![t] = SubSeq(stk[t], 1, Len(stk[t]) - 1)]
       /\ UNCHANGED unw

\* user code panics: the whole stack unwinds (T2), innermost first
Panic(t) ==
    /\ AllowPanic /\ Free(t) /\ stk[t] # <<>> /\ Tick
    /\ unw' = [unw EXCEPT ![t] = TRUE] /\ UNCHANGED <<G, stk>>

Unwind(t) ==
    /\ unw[t] /\ ~Has(G.edges, t) /\ Tick
    /\ IF stk[t] = <<>> THEN unw' = [unw EXCEPT ![t] = FALSE] /\ UNCHANGED <<G, stk>>
       ELSE LET f == stk[t][Len(stk[t])] k == f.k st == G.sync[k] IN
            /\ stk' = [stk EXCEPT ![t] = SubSeq(stk[t], 1, Len(stk[t]) - 1)]
            /\ G' = DgRelease(ReleaseEntry(G, k), k, st, "Panicked")      \* release_panicking
            /\ UNCHANGED unw

Next == \E t \in Threads :
            \/ \E k \in Keys : TryClaim(t, k)
            \/ Wake1(t) \/ Release(t) \/ Panic(t) \/ Unwind(t)
            \/ \E q \in Keys : Transfer(t, q)
Spec == Init /\ [][Next]_vars

Inv == ProtoInv(G)
\* a key that somebody holds is claimed or transferred; an owner thread really holds the key
ClaimsConsistent ==
    /\ \A t \in Threads : \A i \in 1..Len(stk[t]) : Has(G.sync, stk[t][i].k)
    /\ \A k \in DOMAIN G.sync : G.sync[k].owner >= 1 => Holds(G.sync[k].owner, k)
=============================================================================
