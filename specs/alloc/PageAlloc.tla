------------------------------ MODULE PageAlloc ------------------------------
(***************************************************************************)
(* Identity allocation (src/table.rs Table pages + non_full_pages,         *)
(* src/zalsa_local.rs ZalsaLocal::allocate / allocate_cold /               *)
(* record_unfilled_pages): every database handle caches, per ingredient,   *)
(* the page it allocates from; a page has one writer at a time; a handle   *)
(* that is dropped returns its pages to the pool of non-full pages, from   *)
(* which later handles take them.  An id is (page, slot).                  *)
(*                                                                         *)
(* Checked by TLC for all schedules of Allocate / DropHandle / NewHandle:  *)
(* ids are pairwise distinct (C24), a page is cached by at most one live   *)
(* handle, pooled pages are cached by nobody, slots are handed out in      *)
(* increasing order.                                                       *)
(***************************************************************************)
EXTENDS Integers, Sequences, FiniteSets, TLC

CONSTANTS NH, NI, CAP, MaxAlloc, MaxDrops,
          KeepCached,   \* mutation: a dropped handle's page is pooled but stays usable by a stale cache (no clear)
          NoPop         \* mutation: take_non_full_page does not remove the page from the pool

H == 1..NH
I == 1..NI

VARIABLES pages,    \* sequence of [ing, len]
          pool,     \* ingredient -> sequence of page indices (non_full_pages)
          cache,    \* handle -> [ingredient -> page index or 0]
          live,     \* set of live handles
          given,    \* sequence of ids handed out: <<page, slot>>
          dup,      \* an id was handed out twice
          drops     \* number of handle drops so far (bound)
vars == <<pages, pool, cache, live, given, dup, drops>>

Init ==
    /\ pages = <<>> /\ pool = [i \in I |-> <<>>] /\ cache = [h \in H |-> [i \in I |-> 0]]
    /\ live = H /\ given = <<>> /\ dup = FALSE /\ drops = 0

Ids == {<<given[k][1], given[k][2]>> : k \in 1..Len(given)}

\* PageView::allocate on the cached page (fast path), or allocate_cold: take a pooled page or push a new one
Allocate(h, i) ==
    /\ h \in live /\ Len(given) < MaxAlloc
    /\ LET p0 == cache[h][i] IN
       IF p0 # 0 /\ pages[p0].len < CAP THEN
            /\ pages' = [pages EXCEPT ![p0].len = pages[p0].len + 1]
            /\ given' = Append(given, <<p0, pages[p0].len + 1>>)
            /\ dup' = (dup \/ <<p0, pages[p0].len + 1>> \in Ids)
            /\ UNCHANGED <<pool, cache, live, drops>>
       ELSE IF pool[i] # <<>> THEN
            \* fetch_or_push_page: take_non_full_page pops the most recently pooled page
            LET p == pool[i][Len(pool[i])] IN
            /\ pool' = [pool EXCEPT ![i] = IF NoPop THEN pool[i] ELSE SubSeq(pool[i], 1, Len(pool[i]) - 1)]
            /\ cache' = [cache EXCEPT ![h][i] = p]
            /\ UNCHANGED <<pages, live, given, dup, drops>>
       ELSE
            /\ pages' = Append(pages, [ing |-> i, len |-> 0])
            /\ cache' = [cache EXCEPT ![h][i] = Len(pages) + 1]
            /\ UNCHANGED <<pool, live, given, dup, drops>>

\* Storage::drop -> record_unfilled_pages: every cached page goes to the pool
DropHandle(h) ==
    /\ h \in live /\ drops < MaxDrops
    /\ drops' = drops + 1
    /\ live' = live \ {h}
    /\ pool' = [i \in I |-> IF cache[h][i] # 0 THEN Append(pool[i], cache[h][i]) ELSE pool[i]]
    /\ cache' = IF KeepCached THEN cache ELSE [cache EXCEPT ![h] = [i \in I |-> 0]]
    /\ UNCHANGED <<pages, given, dup>>

\* a new clone starts with an empty cache (mutation KeepCached: it inherits the stale one)
NewHandle(h) ==
    /\ h \notin live
    /\ live' = live \cup {h}
    /\ UNCHANGED <<pages, pool, cache, given, dup, drops>>

Next == (\E h \in H : (\E i \in I : Allocate(h, i)) \/ DropHandle(h) \/ NewHandle(h)) \/ (Len(given) = MaxAlloc /\ UNCHANGED vars)
Spec == Init /\ [][Next]_vars

IdsDistinct == ~dup
UniqueWriter ==
    \A p \in 1..Len(pages) :
        Cardinality({h \in live : \E i \in I : cache[h][i] = p}) <= 1
PooledNotCached ==
    \A i \in I : \A k \in 1..Len(pool[i]) : ~(\E h \in live : cache[h][i] = pool[i][k])
SlotsInOrder ==
    \A k \in 1..Len(given) : \A m \in 1..Len(given) :
        (k < m /\ given[k][1] = given[m][1]) => given[k][2] < given[m][2]
PageIngredient == \A h \in live : \A i \in I : cache[h][i] # 0 => pages[cache[h][i]].ing = i
=============================================================================
