SPECIFICATION Spec
CONSTANTS
  NH = 2
  NI = 2
  CAP = 2
  MaxAlloc = 5
  MaxDrops = 2
  KeepCached = FALSE
  NoPop = FALSE
INVARIANTS IdsDistinct UniqueWriter PooledNotCached SlotsInOrder PageIngredient
CHECK_DEADLOCK FALSE
