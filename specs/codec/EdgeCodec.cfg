SPECIFICATION Spec
CONSTANTS
  MaxLen = 2
  Small = 0
INVARIANTS Partition PackedOnlyInputs Emit
CHECK_DEADLOCK FALSE
