SPECIFICATION Spec
CONSTANTS
  MaxLen = 4
  Small = 1
INVARIANTS Partition PackedOnlyInputs Emit
CHECK_DEADLOCK FALSE
