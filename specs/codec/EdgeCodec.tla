------------------------------ MODULE EdgeCodec ------------------------------
(***************************************************************************)
(* Stored query origins (src/zalsa_local.rs OriginAndExtra): a sequence of *)
(* input / output edges is kept either in the packed 8-byte layout         *)
(* [ingredient:12][generation:20] + index, or in the wide layout; extra    *)
(* revision data may be co-allocated.  The specification works over        *)
(* boundary classes of (ingredient, index, generation):                    *)
(*    ingredient: 1=0  2=1  3=0xFFF (largest packed)  4=0x1000  5=0x7FFFFFFF*)
(*    index     : 1=0  2=Id::MAX_U32-1                                      *)
(*    generation: 1=0  2=1  3=0xFFFFF (largest packed) 4=0x100000 5=u32::MAX*)
(* and predicts, for every case, the layout and everything the stored       *)
(* origin must yield back (C25).  TLC enumerates the cases; each is         *)
(* replayed on the real codec through hook H3.                              *)
(***************************************************************************)
EXTENDS Integers, Sequences, FiniteSets, TLC, Json

CONSTANTS MaxLen, Small   \* Small: 0 = all classes, 1 = the packing boundary only, 2 = extremes and boundary

IngC == IF Small = 1 THEN {3, 4} ELSE IF Small = 2 THEN {1, 3, 4, 5} ELSE 1..5
IdxC == IF Small = 0 THEN 1..2 ELSE {2}
GenC == IF Small = 1 THEN {3, 4} ELSE IF Small = 2 THEN {1, 3, 4, 5} ELSE 1..5
Edge == [ing : IngC, idx : IdxC, gen : GenC, out : BOOLEAN]
Flags == {0, 1, 3, 5, 7, 9, 11, 15}

SeqsUpTo(S, n) == UNION {[1..k -> S] : k \in 0..n}

VARIABLE c
Init == c \in [kind : 0..1, flags : Flags, edges : SeqsUpTo(Edge, MaxLen)]
Next == UNCHANGED c
Spec == Init /\ [][Next]_c

Bit(f, b) == (f \div b) % 2 = 1
Fits(e) == ~e.out /\ e.ing <= 3 /\ e.gen <= 3

Expected(x) ==
    LET es == x.edges
        he == Bit(x.flags, 1)
        conv == he /\ Bit(x.flags, 2)
        tids == IF he /\ Bit(x.flags, 4) THEN 1 ELSE 0
    IN [packed |-> \A i \in 1..Len(es) : Fits(es[i]),
        kind |-> x.kind,
        edges |-> es,
        inputs |-> SelectSeq(es, LAMBDA e : ~e.out),
        outputs |-> SelectSeq(es, LAMBDA e : e.out),
        has_extra |-> he, conv |-> conv, tids |-> tids]

\* design lemmas (checked on every case)
Partition == LET ex == Expected(c) IN Len(ex.inputs) + Len(ex.outputs) = Len(c.edges)
PackedOnlyInputs == Expected(c).packed => Expected(c).outputs = <<>>

Emit == PrintT("CASE|" \o ToJson([c |-> c, x |-> Expected(c)]))
=============================================================================
