SPECIFICATION Spec
CONSTANTS
  NQ = 2
  REVS = 1
  Vals = {0, 2, 4}
  MaxOps = 6
  MaxWrites = 4
  Emit = FALSE
  Mut = "none"
INVARIANTS NoBad Canonical HandleValid LruExact EmitInv
CHECK_DEADLOCK FALSE
