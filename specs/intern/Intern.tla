------------------------------- MODULE Intern -------------------------------
(***************************************************************************)
(* Interned values with garbage collection (src/interned.rs), one shard,   *)
(* one thread: the key map, the LRU list of reusable (LOW-durability)      *)
(* values, `last_interned_at`, the queue of the last REVS active revisions *)
(* (record / is_primed / is_stale), the fast path of `intern_id`           *)
(* (re-stamp, move to the LRU front, durability promotion and removal from *)
(* the LRU), slot reuse (`find_reusable_slot`: the LRU tail if stale, new  *)
(* generation), allocation of fresh slots, and `maybe_changed_after` of an *)
(* interned dependency (generation check, re-stamp without LRU move).      *)
(*                                                                         *)
(* Clients are tracked functions q: read one input field (field 1 has LOW, *)
(* field 2 HIGH durability) and intern vals[q][input value]; their memos   *)
(* remember the handle (slot, generation), are shallow-verified by         *)
(* durability, deep-verified through the input and (if the value was       *)
(* reusable when read) the interned dependency, and re-executed otherwise. *)
(*                                                                         *)
(* Checked for all programs and histories within the bounds:               *)
(*   Canonical   - no two live slots hold the same value (C08)             *)
(*   HandleValid - a memo verified in the current revision holds a handle  *)
(*                 whose slot still has that generation and value (C07)    *)
(*   reuse only of LOW, stale slots once the queue is primed (C09; `bad`)  *)
(* Every behaviour is emitted (Emit) with the predicted executions and the *)
(* exact handles, and replayed on salsa (lib/internmc.py).                 *)
(***************************************************************************)
EXTENDS Integers, Sequences, FiniteSets, TLC, Json

CONSTANTS NQ,       \* number of client functions
          REVS,     \* `revisions` of the interned type (length of the revision queue)
          Vals,     \* set of values
          MaxOps, MaxWrites,
          Emit,
          Mut       \* mutation switch for self-tests of the model

Q == 1..NQ
LOW == 0
HIGH == 2
R0 == 1
FldDur(f) == IF f = 1 THEN LOW ELSE HIGH
Max2(a, b) == IF a >= b THEN a ELSE b
Min2(a, b) == IF a <= b THEN a ELSE b

\* programs: per function the input field it reads and the value interned for input value 0 / 1
Progs == [Q -> [fld : {1, 2}, v0 : Vals, v1 : Vals]]

VARIABLES prog, rev, inval, inchg, lc,     \* inputs: value and changed_at per field; last_changed per durability
          slots, lru, queue,               \* the interner: Seq of [val, gen, dur, last], LRU (front first), revision queue
          memo,                            \* per function: [has, s, g, vat, dur, depI]
          nops, nwr, hist, bad
vars == <<prog, rev, inval, inchg, lc, slots, lru, queue, memo, nops, nwr, hist, bad>>

NoMemo == [has |-> FALSE, s |-> 0, g |-> 0, vat |-> 0, dur |-> HIGH, depI |-> FALSE]

Init ==
    /\ prog \in Progs
    /\ rev = R0
    /\ inval \in [{1, 2} -> {0, 1}]
    /\ inchg = [f \in {1, 2} |-> R0]
    /\ lc = [d \in {LOW, HIGH} |-> R0]
    /\ slots = <<>> /\ lru = <<>>
    /\ queue = [i \in 1..REVS |-> R0]
    /\ memo = [q \in Q |-> NoMemo]
    /\ nops = 0 /\ nwr = 0 /\ hist = <<>> /\ bad = {}

Reusable(d) == d = LOW
Primed(qu) == qu[REVS] > R0
Stale(qu, r) == qu[REVS] # R0 /\ r < qu[REVS]
Record(qu, r) == IF qu[1] >= r THEN qu ELSE [i \in 1..REVS |-> IF i = 1 THEN r ELSE qu[i - 1]]
Without(s, x) == SelectSeq(s, LAMBDA y : y # x)
Find(sl, v) == {i \in 1..Len(sl) : sl[i].val = v}

\* intern_id(v) from a query whose durability so far is sd: new interner state and the handle
InternOp(sl, lr, qu, v, sd) ==
    LET qu1 == Record(qu, rev)
        hit == Find(sl, v)
    IN
    IF hit # {} THEN
        LET i == CHOOSE x \in hit : TRUE
            e == sl[i]
            restamp == e.last < rev
            lr1 == IF restamp /\ Reusable(e.dur) THEN <<i>> \o Without(lr, i) ELSE lr
            d2 == Max2(e.dur, sd)
            lr2 == IF Reusable(e.dur) /\ ~Reusable(d2) /\ Mut # "nounlink" THEN Without(lr1, i) ELSE lr1
        IN [slots |-> [sl EXCEPT ![i] = [e EXCEPT !.last = IF restamp THEN rev ELSE e.last, !.dur = d2]],
            lru |-> lr2, queue |-> qu1, s |-> i, g |-> e.gen, dur |-> d2, reused |-> FALSE, viol |-> {}]
    ELSE IF Primed(qu1) /\ lr # <<>> /\ (Mut = "nostale" \/ Stale(qu1, sl[lr[Len(lr)]].last)) THEN
        \* reuse the least recently used slot
        LET i == lr[Len(lr)]
            e == sl[i]
            lr1 == Without(lr, i)
        IN [slots |-> [sl EXCEPT ![i] = [val |-> v, gen |-> e.gen + 1, dur |-> sd, last |-> rev]],
            lru |-> IF Reusable(sd) THEN <<i>> \o lr1 ELSE lr1, queue |-> qu1, s |-> i, g |-> e.gen + 1, dur |-> sd,
            reused |-> TRUE,
            viol |-> (IF e.dur # LOW THEN {"C09-durable-slot-reused"} ELSE {})
                     \cup (IF e.last >= rev THEN {"C09-slot-used-in-this-revision-reused"} ELSE {})
                     \cup (IF ~Stale(qu1, e.last) THEN {"C09-recent-slot-reused"} ELSE {})]
    ELSE
        LET i == Len(sl) + 1 IN
        [slots |-> Append(sl, [val |-> v, gen |-> 0, dur |-> sd, last |-> rev]),
         lru |-> IF Reusable(sd) THEN <<i>> \o lr ELSE lr, queue |-> qu1, s |-> i, g |-> 0, dur |-> sd,
         reused |-> FALSE, viol |-> {}]

ValOf(q) == IF inval[prog[q].fld] = 0 THEN prog[q].v0 ELSE prog[q].v1

\* execute q: read the input, intern, store the memo
ExecQ(q) ==
    LET sd == FldDur(prog[q].fld)
        r == InternOp(slots, lru, queue, ValOf(q), sd)
        depI == Reusable(r.dur)
    IN [slots |-> r.slots, lru |-> r.lru, queue |-> r.queue, viol |-> r.viol,
        memo |-> [has |-> TRUE, s |-> r.s, g |-> r.g, vat |-> rev, dur |-> IF depI THEN LOW ELSE sd, depI |-> depI],
        exec |-> TRUE]

\* fetch(q)
FetchQ(q) ==
    LET m == memo[q] IN
    IF ~m.has THEN ExecQ(q)
    ELSE IF m.vat = rev \/ lc[m.dur] <= m.vat THEN
        \* verified in this revision, or shallow verification by durability
        [slots |-> slots, lru |-> lru, queue |-> queue, viol |-> {}, memo |-> [m EXCEPT !.vat = rev], exec |-> FALSE]
    ELSE IF inchg[prog[q].fld] > m.vat THEN ExecQ(q)
    ELSE IF m.depI THEN
        \* maybe_changed_after of the interned dependency
        LET qu1 == Record(queue, rev) IN
        IF slots[m.s].gen > m.g THEN
            LET r == InternOp(slots, lru, qu1, ValOf(q), FldDur(prog[q].fld))
                depI == Reusable(r.dur)
            IN [slots |-> r.slots, lru |-> r.lru, queue |-> r.queue, viol |-> r.viol,
                memo |-> [has |-> TRUE, s |-> r.s, g |-> r.g, vat |-> rev,
                          dur |-> IF depI THEN LOW ELSE FldDur(prog[q].fld), depI |-> depI], exec |-> TRUE]
        ELSE [slots |-> [slots EXCEPT ![m.s].last = rev], lru |-> lru, queue |-> qu1, viol |-> {},
              memo |-> [m EXCEPT !.vat = rev], exec |-> FALSE]
    ELSE [slots |-> slots, lru |-> lru, queue |-> queue, viol |-> {}, memo |-> [m EXCEPT !.vat = rev], exec |-> FALSE]

Get(q) ==
    /\ nops < MaxOps
    /\ LET r == FetchQ(q) IN
       /\ slots' = r.slots /\ lru' = r.lru /\ queue' = r.queue
       /\ memo' = [memo EXCEPT ![q] = r.memo]
       /\ bad' = bad \cup r.viol
                 \cup (IF r.slots[r.memo.s].gen # r.memo.g \/ r.slots[r.memo.s].val # ValOf(q)
                       THEN {"C07-returned-handle-does-not-read-back-its-value"} ELSE {})
       /\ hist' = Append(hist, [op |-> "get", f |-> q, ex |-> r.exec, s |-> r.memo.s, g |-> r.memo.g, v |-> ValOf(q)])
    /\ nops' = nops + 1
    /\ UNCHANGED <<prog, rev, inval, inchg, lc, nwr>>

\* write input field f (always to the other value): a new revision
Write(f) ==
    /\ nops < MaxOps /\ nwr < MaxWrites
    /\ rev' = rev + 1
    /\ inval' = [inval EXCEPT ![f] = 1 - @]
    /\ inchg' = [inchg EXCEPT ![f] = rev + 1]
    /\ lc' = [d \in {LOW, HIGH} |-> IF d <= FldDur(f) THEN rev + 1 ELSE lc[d]]
    /\ hist' = Append(hist, [op |-> "set", f |-> f, ex |-> FALSE, s |-> 0, g |-> 0, v |-> 1 - inval[f]])
    /\ nops' = nops + 1 /\ nwr' = nwr + 1
    /\ UNCHANGED <<prog, slots, lru, queue, memo, bad>>

Done ==
    /\ nops = MaxOps
    /\ UNCHANGED vars

Next == (\E q \in Q : Get(q)) \/ (\E f \in {1, 2} : Write(f)) \/ Done
Spec == Init /\ [][Next]_vars

---------------------------------------------------------------------------
NoBad == bad = {}
Canonical == \A i, j \in 1..Len(slots) : i # j => slots[i].val # slots[j].val
\* a memo that is verified in the current revision holds a live handle of the right value
HandleValid == \A q \in Q : (memo[q].has /\ memo[q].vat = rev) =>
                  slots[memo[q].s].gen = memo[q].g /\ slots[memo[q].s].val = ValOf(q)
\* the LRU holds exactly the reusable slots, each once
LruExact == /\ \A i \in 1..Len(slots) : Reusable(slots[i].dur) <=> (\E k \in 1..Len(lru) : lru[k] = i)
            /\ \A k1, k2 \in 1..Len(lru) : k1 # k2 => lru[k1] # lru[k2]
EmitInv == (Emit /\ nops = MaxOps) =>
              PrintT("REPLAY|" \o ToJson([prog |-> prog, in0 |-> [f \in {1, 2} |-> IF (Cardinality({i \in 1..Len(hist) : hist[i].op = "set" /\ hist[i].f = f}) % 2 = 0) THEN inval[f] ELSE 1 - inval[f]], h |-> hist]))
=============================================================================
