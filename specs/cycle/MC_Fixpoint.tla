---------------------------- MODULE MC_Fixpoint ----------------------------
EXTENDS Fixpoint
NoBad == bad = {}
\* a final memo always holds the least fixpoint
FinalIsLfp == \A j \in F : (memo[j].has /\ memo[j].final) => memo[j].val = Expected[j]
\* provisional values only grow towards the least fixpoint
ProvBelowLfp == \A j \in F : memo[j].has => memo[j].val \subseteq Expected[j]
\* between top-level requests no lock is held and a transferred entry is stale (its owner released)
LocksQuiescent == (pc = "L0") => \A j \in F : lock[j] # "held" /\ (lock[j] = "xfer" => ~Owned(j))
\* a held lock is a frame of the stack
HeldIsOnStack == \A j \in F : lock[j] = "held" => \E i \in 1..Len(qstack) : qstack[i] = j
=============================================================================
