SPECIFICATION Spec
CONSTANTS
  NF = 2
  MaxOps = 5
  MaxWrites = 1
  MaxPanics = 1
  Emit = FALSE
  Mut = "none"
  Fb = FALSE
  Progs <- AllProgs
  defaultInitValue = 0
INVARIANTS NoBad FinalIsLfp LocksQuiescent
CHECK_DEADLOCK FALSE
