SPECIFICATION Spec
CONSTANTS
  NF = 2
  MaxOps = 4
  MaxWrites = 2
  Emit = FALSE
  Mut = "none"
  Fb = FALSE
  Progs <- AllProgs
  defaultInitValue = 0
INVARIANTS NoBad FinalIsLfp LocksQuiescent
CHECK_DEADLOCK FALSE
