------------------------------- MODULE FixRev -------------------------------
(***************************************************************************)
(* Fixpoint iteration across revisions: Fixpoint.tla (one thread) extended *)
(* with one boolean input of LOW durability that gates one call of each    *)
(* function, input writes (new revisions), memo stamps (verified_at,       *)
(* changed_at, durability LOW / NEVER_CHANGE), recorded dependencies and   *)
(* their flattening for cycle queries, shallow and deep verification,      *)
(* maybe_changed_after (with re-execution), backdating, and the iteration  *)
(* metadata (changed_at / durability convergence of a head).               *)
(*                                                                         *)
(* Code followed, one label per critical section:                          *)
(*   src/function/fetch.rs, execute.rs, maybe_changed_after.rs,            *)
(*   backdate.rs, src/function.rs (flatten_cycle_head_dependencies),       *)
(*   src/active_query.rs (add_read, seed_iteration), src/function/sync.rs  *)
(*                                                                         *)
(* value(j) = {j} \cup union of the values of the callees actually called; *)
(* the gate[j]-th call of j is made only while the input is TRUE (the      *)
(* input is read just before it).  TLC checks for every program, initial   *)
(* input and history of requests and writes that every result is the least *)
(* fixpoint under the current input (C12), that no assertion of the        *)
(* implementation can fail (incl. the backdate assertion), and emits every *)
(* behaviour for replay on salsa (values and body-execution sequences).    *)
(***************************************************************************)
EXTENDS Integers, Sequences, FiniteSets, TLC, Json

CONSTANTS NF,        \* number of functions
          MaxOps,    \* operations (requests and writes) per behaviour
          MaxWrites, \* input writes per behaviour
          Emit,      \* print one REPLAY line per complete behaviour
          Progs,     \* set of programs [calls |-> [F -> Seq(F)], gate |-> [F -> Nat]]
          MaxPanics, \* user panics (armed at the next body start of a chosen function) per behaviour
          Fb,        \* FALSE: fixpoint functions (cycle_fn / cycle_initial); TRUE: cycle_result (FallbackImmediate)
          Mut        \* mutation switch for self-tests of the model

F == 1..NF
EIN == 0                      \* the dependency edge on the input
LOW == 0
NEVER == 1
R0 == 1                       \* Revision::start()

Max2(a, b) == IF a >= b THEN a ELSE b
Min2(a, b) == IF a <= b THEN a ELSE b
MaxOf(S) == CHOOSE x \in S : \A y \in S : y <= x

\* callees of j that are called under input value b
ActiveCalls(p, j, b) == {p.calls[j][i] : i \in {k \in 1..Len(p.calls[j]) : p.gate[j] # k \/ b}}
RECURSIVE LfpIter(_, _, _, _)
LfpIter(p, b, v, n) ==
    LET v2 == [j \in F |-> {j} \cup UNION {v[g] : g \in ActiveCalls(p, j, b)}] IN
    IF v2 = v \/ n = 0 THEN v ELSE LfpIter(p, b, v2, n - 1)
Lfp(p, b) == LfpIter(p, b, [j \in F |-> {}], NF + 2)

\* fallback semantics (C13): a function on a cycle of the call graph returns its fallback ({}),
\* everything else is evaluated on top of those values
RECURSIVE ReachN(_, _, _, _, _)
ReachN(p, b, front, seen, n) ==
    LET nxt == UNION {ActiveCalls(p, g, b) : g \in front} \ seen IN
    IF nxt = {} \/ n = 0 THEN seen ELSE ReachN(p, b, nxt, seen \cup nxt, n - 1)
OnCyc(p, b, j) == LET e == ActiveCalls(p, j, b) IN j \in ReachN(p, b, e, e, NF + 1)
RECURSIVE FbVal(_, _, _, _)
FbVal(p, b, j, n) == IF OnCyc(p, b, j) \/ n = 0 THEN {}
                     ELSE {j} \cup UNION {FbVal(p, b, g, n - 1) : g \in ActiveCalls(p, j, b)}
FbSem(p, b) == [j \in F |-> FbVal(p, b, j, NF + 1)]

NoHeads == [h \in F |-> -1]
Only(j, it) == [h \in F |-> IF h = j THEN it ELSE -1]
HeadSet(hs) == {h \in F : hs[h] # -1}
\* has: a memo exists; hv: it has a value (a memo poisoned by PoisonProvisionalIfPanicking has none)
NoMemo == [has |-> FALSE, hv |-> FALSE, val |-> {}, final |-> FALSE, heads |-> NoHeads, it |-> 0, conv |-> FALSE,
           vat |-> 0, cat |-> R0, dur |-> NEVER, deps |-> <<>>]
InSeq(s, x) == \E i \in 1..Len(s) : s[i] = x
AddDep(s, x) == IF InSeq(s, x) THEN s ELSE Append(s, x)
RECURSIVE AddAll(_, _, _)
AddAll(s, t, i) == IF i > Len(t) THEN s ELSE AddAll(AddDep(s, t[i]), t, i + 1)
Frame0 == [heads |-> NoHeads, deps |-> <<>>, cat |-> R0, dur |-> NEVER]

(* --algorithm FixRev {
variables
    prog \in Progs,
    inp \in BOOLEAN,
    rev = R0,                        \* current revision
    lastchg = R0,                    \* revision in which the input was last written (its changed_at)
    memo = [j \in F |-> NoMemo],
    lock = [j \in F |-> "free"],
    xto = [j \in F |-> 0],
    qstack = <<>>,
    fr = <<>>,                       \* per frame: ActiveQuery (cycle heads, input_outputs, changed_at, durability)
    rv = {}, rh = NoHeads, rcat = R0, rdur = NEVER,     \* return registers of Fetch
    rchg = FALSE, rok = FALSE,                          \* return registers of MaybeChanged / DeepVerify
    capt = [j \in F |-> NoMemo],     \* opt_old_memo: the memo loaded right after claiming (before deep verification)
    nops = 0, nwr = 0, lastreq = 1,
    armed = 0, npan = 0,             \* function whose next body execution panics (0 = none); panics armed so far
    unw = "",                        \* unwinding: "" | "user" (user panic) | "pp" (Cancelled::PropagatedPanic)
    lastpanic = 0,                   \* revision of the last user panic
    xlog = <<>>, hist = <<>>,
    bad = {};

define {
    calls == prog.calls
    gate == prog.gate
    Top == Len(qstack)
    OnStack(j) == \E i \in 1..Len(qstack) : qstack[i] = j
    RECURSIVE RootHeld(_, _)
    RootHeld(j, n) == IF lock[j] = "held" THEN TRUE
                      ELSE IF lock[j] = "xfer" /\ n > 0 THEN RootHeld(xto[j], n - 1) ELSE FALSE
    Owned(j) == RootHeld(j, NF)
    RECURSIVE ChainHits(_, _, _)
    ChainHits(j, r, n) == IF j = r THEN TRUE
                          ELSE IF lock[j] = "xfer" /\ n > 0 THEN ChainHits(xto[j], r, n - 1) ELSE FALSE
    Released(r) == [j \in F |-> IF j = r \/ (lock[j] = "xfer" /\ ChainHits(j, r, NF)) THEN "free" ELSE lock[j]]

    \* shallow_verify_memo
    ShallowOK(m) == m.vat = rev \/ m.dur = NEVER \/ lastchg <= m.vat
    \* validate_provisional / validate_same_iteration
    ValidProvisional(m) ==
        \A h \in HeadSet(m.heads) : memo[h].has /\ memo[h].final /\ (Mut = "novat" \/ memo[h].vat = m.vat) /\ memo[h].it = m.heads[h]
    SameIteration(j, m) ==
        /\ m.vat = rev
        /\ HeadSet(m.heads) \ {j} # {}
        /\ \A h \in HeadSet(m.heads) : Owned(h) /\ memo[h].has /\ memo[h].vat = m.vat /\ memo[h].it = m.heads[h]
    ValidateMaybeProv(j, m) == m.final \/ HeadSet(m.heads) = {} \/ ValidProvisional(m) \/ SameIteration(j, m)
    BecomesFinal(m) == ~m.final /\ HeadSet(m.heads) # {} /\ ValidProvisional(m)
    HeadMemoMissing(m) == \E h \in HeadSet(m.heads) : Owned(h) /\ ~memo[h].has

    RECURSIVE Clos(_, _, _)
    Clos(me, S0, P) ==
        LET hs == (S0 \cup {p[1] : p \in P}) \ {me}
            P2 == P \cup UNION {{<<hh, memo[h].heads[hh]>> : hh \in HeadSet(memo[h].heads) \ S0} : h \in hs}
        IN IF P2 = P THEN P ELSE Clos(me, S0, P2)
    Followed(me, S0, P) == (S0 \cup {p[1] : p \in P}) \ {me}
    MaxIter(me, S0, P, it) ==
        MaxOf({it} \cup UNION {{memo[h].heads[hh] : hh \in HeadSet(memo[h].heads)} : h \in Followed(me, S0, P)})
    Extend(hs, P) == [h \in F |-> IF hs[h] # -1 THEN hs[h]
                                  ELSE IF \E p \in P : p[1] = h THEN (CHOOSE p \in P : p[1] = h)[2] ELSE -1]
    \* outer_cycle: outermost frame among the heads; else a head whose lock this thread holds without a frame
    \* (a query under deep verification)
    OuterIdx(hs, me) == {i \in 1..(Top - 1) : qstack[i] # me /\ hs[qstack[i]] # -1}
    OuterHeld(hs, me) == {h \in HeadSet(hs) \ {me} : lock[h] = "held" /\ ~OnStack(h)}
    HasOuter(hs, me) == OuterIdx(hs, me) # {} \/ OuterHeld(hs, me) # {}
    OuterOf(hs, me) == IF OuterIdx(hs, me) # {}
                       THEN qstack[CHOOSE i \in OuterIdx(hs, me) : \A k \in OuterIdx(hs, me) : i <= k]
                       ELSE CHOOSE h \in OuterHeld(hs, me) : \A k \in OuterHeld(hs, me) : k <= h

    \* complete_cycle_query: flatten the recorded dependencies through provisional memos
    RECURSIVE FlatN(_, _, _, _)
    FlatN(deps, i, out, seen) ==
        IF i > Len(deps) THEN out
        ELSE LET e == deps[i] IN
             IF e = EIN THEN FlatN(deps, i + 1, AddDep(out, EIN), seen)
             ELSE IF ~memo[e].has THEN FlatN(deps, i + 1, out, seen)
             ELSE IF memo[e].final THEN FlatN(deps, i + 1, AddDep(out, e), seen)
             ELSE IF e \in seen THEN FlatN(deps, i + 1, out, seen)
             ELSE FlatN(deps, i + 1, AddAll(out, memo[e].deps, 1), seen \cup {e})
    Flatten(deps) == IF Mut = "noflat" THEN deps ELSE FlatN(deps, 1, <<>>, {})

    \* backdate_if_appropriate(old, new): the changed_at of the new memo, and whether the assertion fires
    CanBackdate(old, newheads, newdur, newval) ==
        old.has /\ HeadSet(newheads) = {} /\ old.final /\ newdur >= old.dur /\ old.val = newval
    Backdated(old, newheads, newdur, newval, newcat) ==
        IF CanBackdate(old, newheads, newdur, newval) THEN old.cat ELSE newcat
    BackdateFires(old, newheads, newdur, newval, newcat) ==
        CanBackdate(old, newheads, newdur, newval) /\ old.cat > newcat /\ HeadSet(old.heads) = {}

    \* PoisonProvisionalIfPanicking::drop: fixpoint initial memo without a value
    Poison(j) == [has |-> TRUE, hv |-> FALSE, val |-> {}, final |-> FALSE, heads |-> Only(j, 0), it |-> 0, conv |-> FALSE,
                  vat |-> rev, cat |-> R0, dur |-> NEVER, deps |-> <<>>]
    Expected == IF Fb THEN FbSem(prog, inp) ELSE Lfp(prog, inp)
}

macro AddHeads(newh) {
    if (\E h \in F : newh[h] # -1 /\ fr[Top].heads[h] # -1 /\ fr[Top].heads[h] # newh[h]) {
        bad := bad \cup {"HeadIterationAssert"};
    };
}

procedure Fetch(fq) {
 F0: if (memo[fq].has /\ memo[fq].hv /\ ShallowOK(memo[fq]) /\ memo[fq].final) {
        \* fetch_hot (update_shallow marks the memo verified)
        memo[fq].vat := rev;
        rv := memo[fq].val; rh := NoHeads; rcat := memo[fq].cat; rdur := memo[fq].dur;
        return;
     } else if (lock[fq] = "held") {
        \* try_claim == Cycle: fetch_cold_cycle
        if (memo[fq].has /\ ~memo[fq].hv /\ ~memo[fq].final /\ memo[fq].vat = rev) {
            \* a poisoned memo of this revision is not replaced by a new initial value
            unw := "pp";
        } else if (memo[fq].has /\ memo[fq].hv /\ memo[fq].vat = rev /\ memo[fq].heads[fq] # -1) {
            rv := memo[fq].val; rh := Only(fq, memo[fq].heads[fq]); rcat := memo[fq].cat; rdur := memo[fq].dur;
            memo[fq].heads := Only(fq, memo[fq].heads[fq]);
        } else {
            rv := {}; rcat := R0; rdur := NEVER;
            rh := Only(fq, IF memo[fq].has /\ memo[fq].hv /\ memo[fq].vat = rev THEN memo[fq].it ELSE 0);
            memo[fq] := [has |-> TRUE, hv |-> TRUE, val |-> {}, final |-> FALSE, conv |-> FALSE, vat |-> rev, cat |-> R0,
                         dur |-> NEVER, deps |-> <<>>,
                         it |-> IF memo[fq].has /\ memo[fq].hv /\ memo[fq].vat = rev THEN memo[fq].it ELSE 0,
                         heads |-> Only(fq, IF memo[fq].has /\ memo[fq].hv /\ memo[fq].vat = rev THEN memo[fq].it ELSE 0)];
        };
        return;
     } else if (lock[fq] = "xfer" /\ ~Owned(fq)) {
        lock[fq] := "free";
        goto F0;
     } else if (memo[fq].has /\ memo[fq].hv /\ ShallowOK(memo[fq]) /\ ValidateMaybeProv(fq, memo[fq])) {
        \* claimed; verify_memo without deep verification (validate_provisional may mark the memo final)
        rv := memo[fq].val; rcat := memo[fq].cat; rdur := memo[fq].dur;
        rh := IF memo[fq].final \/ BecomesFinal(memo[fq]) THEN NoHeads ELSE memo[fq].heads;
        memo[fq] := [memo[fq] EXCEPT !.vat = rev, !.final = @ \/ BecomesFinal(memo[fq])];
        return;
     } else if (memo[fq].has /\ memo[fq].hv /\ memo[fq].final) {
        \* deep_verify_memo of a final memo from an older revision (the claim is kept meanwhile)
        lock[fq] := "held";
        capt[fq] := memo[fq];
        call DeepVerify(fq);
 F3:    if (unw # "") {
            lock := Released(fq);        \* the claim guard is dropped while unwinding
            return;
        } else if (rok) {
            lock := Released(fq);
            rv := memo[fq].val; rh := NoHeads; rcat := memo[fq].cat; rdur := memo[fq].dur;
            return;
        } else {
            goto F1b;
        };
     } else if (memo[fq].has /\ HeadMemoMissing(memo[fq])) {
        bad := bad \cup {"HeadMemoMissing"};
     };
 F1: capt[fq] := memo[fq];
 F1b: call Exec(fq);
 F2: if (unw = "") {
        rv := memo[fq].val; rcat := memo[fq].cat; rdur := memo[fq].dur;
        rh := IF memo[fq].final THEN NoHeads ELSE memo[fq].heads;
     };
     return;
}

\* deep_verify_edges of the final memo of dq (its claim is held)
procedure DeepVerify(dq)
  variables di = 1; dvat = 0;
{
 D0: dvat := memo[dq].vat;
 D1: while (di <= Len(memo[dq].deps)) {
        if (memo[dq].deps[di] = EIN) {
            if (lastchg > dvat) { rok := FALSE; return; } else { di := di + 1; };
        } else if (Mut = "nodeep") {
            di := di + 1;
        } else {
            call MaybeChanged(memo[dq].deps[di], dvat);
 D2:        if (unw # "" \/ rchg) { rok := FALSE; return; } else { di := di + 1; };
        };
     };
 D3: memo[dq].vat := rev;            \* mark_as_verified
     rok := TRUE;
     return;
}

\* maybe_changed_after(mq, mr)
procedure MaybeChanged(mq, mr) {
 M0: if (~memo[mq].has) {
        rchg := TRUE; return;
     } else if (ShallowOK(memo[mq]) /\ memo[mq].final) {
        memo[mq].vat := rev;
        rchg := memo[mq].cat > mr;
        return;
     } else if (lock[mq] = "held" \/ (lock[mq] = "xfer" /\ Owned(mq))) {
        \* try_claim(Deny) == Cycle: maybe_changed_after_cold_cycle
        rchg := TRUE; return;
     } else if (ShallowOK(memo[mq]) /\ ValidateMaybeProv(mq, memo[mq])) {
        rchg := memo[mq].cat > mr;
        memo[mq] := [memo[mq] EXCEPT !.vat = rev, !.final = @ \/ BecomesFinal(memo[mq])];
        return;
     } else if (~memo[mq].final) {
        \* provisional: deep verification reports changed, nothing is re-executed here
        rchg := TRUE; return;
     } else {
        lock[mq] := "held";
        capt[mq] := memo[mq];
        call DeepVerify(mq);
     };
 M1: if (unw # "") {
        lock := Released(mq);
        return;
     } else if (rok) {
        lock := Released(mq);
        rchg := memo[mq].cat > mr;
        return;
     } else if (~memo[mq].hv) {
        lock := Released(mq);
        rchg := TRUE;
        return;
     };
 M2: call Exec(mq);
 M3: rchg := memo[mq].cat > mr \/ ~memo[mq].final;
     return;
}

procedure Exec(eq)
  variables ci = 1; acc = {}; rounds = 0; iteration = 0; old = NoMemo; lphas = FALSE; lp = NoMemo;
            P = {}; nh = NoHeads; dep = FALSE; cit = 0; last = NoMemo; flat = <<>>;
{
 E0: if (capt[eq].has /\ capt[eq].vat = rev /\ ~capt[eq].hv) {
        \* previous_iteration: a cycle query that panicked earlier in this revision propagates the panic
        unw := "pp";
        lock := Released(eq);
        return;
     } else {
        lock[eq] := "held";
        old := capt[eq];
        iteration := IF capt[eq].has /\ capt[eq].vat = rev THEN capt[eq].it ELSE 0;
        lphas := capt[eq].has /\ capt[eq].hv /\ capt[eq].vat = rev /\ capt[eq].heads[eq] # -1;
        lp := capt[eq];
        qstack := Append(qstack, eq);
        fr := Append(fr, Frame0);
     };
 E1: \* one execution of the body; seed_active_query(last provisional memo, else the old memo)
     ci := 1; acc := {eq};
     xlog := Append(xlog, eq);
     if (armed = eq) {
        \* user code panics at the start of the body
        armed := 0; unw := "user"; lastpanic := rev;
        goto EU;
     } else {
        with (hdr = IF lphas THEN lp ELSE old) {
           fr[Top] := IF hdr.has /\ ~hdr.final /\ hdr.vat = rev
                      THEN [Frame0 EXCEPT !.cat = Max2(R0, hdr.cat), !.dur = Min2(NEVER, hdr.dur)]
                      ELSE Frame0;
        };
     };
 E2: while (ci <= Len(calls[eq])) {
        if (gate[eq] = ci) {
            \* the input is read before the gated call
            fr[Top] := [fr[Top] EXCEPT !.deps = AddDep(@, EIN), !.cat = Max2(@, lastchg), !.dur = LOW];
        };
        if (gate[eq] = ci /\ ~inp) {
            ci := ci + 1;
        } else {
            call Fetch(calls[eq][ci]);
 E3:        if (unw # "") { goto EU; };
 E3b:       acc := acc \cup rv;
            AddHeads(rh);
            fr[Top] := [fr[Top] EXCEPT
                          !.heads = [h \in F |-> IF @[h] # -1 THEN @[h] ELSE rh[h]],
                          !.cat = Max2(@, rcat), !.dur = Min2(@, rdur),
                          !.deps = IF rdur # NEVER \/ HeadSet(rh) # {} THEN AddDep(@, calls[eq][ci]) ELSE @];
            ci := ci + 1;
        };
     };
 E4: \* try_complete_query
     if (HeadSet(fr[Top].heads) = {}) {
        if (BackdateFires(old, NoHeads, fr[Top].dur, acc, fr[Top].cat)) { bad := bad \cup {"BackdateViolation"}; };
        memo[eq] := [has |-> TRUE, hv |-> TRUE, val |-> acc, final |-> TRUE, heads |-> NoHeads, conv |-> FALSE, vat |-> rev,
                     it |-> IF iteration = 0 THEN 0 ELSE iteration + 1,
                     cat |-> Backdated(old, NoHeads, fr[Top].dur, acc, fr[Top].cat), dur |-> fr[Top].dur,
                     deps |-> IF fr[Top].dur = NEVER THEN <<>> ELSE fr[Top].deps];
        lock := Released(eq);
        goto E6;
     } else {
        P := Clos(eq, HeadSet(fr[Top].heads), {});
        flat := Flatten(fr[Top].deps);
     };
 E5: if (\E h \in Followed(eq, HeadSet(fr[Top].heads), P) : ~memo[h].has \/ memo[h].final) {
        bad := bad \cup {"HeadNotProvisional"};
     } else if (\E p1 \in P, p2 \in P : p1[1] = p2[1] /\ p1[2] # p2[2]) {
        bad := bad \cup {"HeadIterationAssert"};
     };
     nh := Extend(fr[Top].heads, P);
     dep := eq \in HeadSet(fr[Top].heads) \/ (\E p \in P : p[1] = eq);
     cit := MaxIter(eq, HeadSet(fr[Top].heads), P, iteration);
 E7: if (~dep) {
        \* complete_cycle_participant
        if (~HasOuter(nh, eq)) {
            bad := bad \cup {"NoOuterCycle"};
            lock := Released(eq);
        } else {
            lock[eq] := "xfer";
            xto[eq] := OuterOf(nh, eq);
        };
        \* (FallbackImmediate: every participant of a cycle takes its fallback value)
        memo[eq] := [has |-> TRUE, hv |-> TRUE, val |-> IF Fb THEN {} ELSE acc, final |-> FALSE, heads |-> nh, conv |-> FALSE, it |-> iteration + 1,
                     vat |-> rev, cat |-> fr[Top].cat, dur |-> fr[Top].dur, deps |-> flat];
     } else {
        if (~lphas /\ ~memo[eq].has) { bad := bad \cup {"NoProvisionalMemo"}; };
        last := IF lphas THEN lp ELSE memo[eq];
        acc := IF Fb THEN {} ELSE acc;
 E8:    if (HasOuter(nh, eq)) {
            \* nested head: iterated as part of the outer cycle
            memo[eq] := [has |-> TRUE, hv |-> TRUE, val |-> acc, final |-> FALSE, heads |-> nh, it |-> iteration, vat |-> rev,
                         conv |-> (acc = last.val /\ last.dur = fr[Top].dur /\ last.cat = fr[Top].cat),
                         cat |-> fr[Top].cat, dur |-> fr[Top].dur, deps |-> flat];
            lock[eq] := "xfer";
            xto[eq] := OuterOf(nh, eq);
        } else if (acc = last.val /\ (Mut = "nometa" \/ (last.dur = fr[Top].dur /\ last.cat = fr[Top].cat))
                   /\ \A h \in HeadSet(nh) \ {eq} : ~memo[h].has \/ memo[h].conv) {
            \* outermost head, converged: finalize itself and the nested heads
            if (BackdateFires(old, NoHeads, fr[Top].dur, acc, fr[Top].cat)) { bad := bad \cup {"BackdateViolation"}; };
            memo := [j \in F |->
                      IF j = eq THEN [has |-> TRUE, hv |-> TRUE, val |-> acc, final |-> TRUE, heads |-> NoHeads, conv |-> FALSE,
                                      it |-> iteration, vat |-> rev, dur |-> fr[Top].dur,
                                      cat |-> Backdated(old, NoHeads, fr[Top].dur, acc, fr[Top].cat),
                                      deps |-> IF fr[Top].dur = NEVER THEN <<>> ELSE flat]
                      ELSE IF j \in HeadSet(nh) /\ memo[j].has THEN [memo[j] EXCEPT !.final = TRUE]
                      ELSE memo[j]];
            lock := Released(eq);
        } else {
            \* iterate again
            memo := [j \in F |->
                      IF j = eq THEN [has |-> TRUE, hv |-> TRUE, val |-> acc, final |-> FALSE, conv |-> FALSE, it |-> cit + 1,
                                      vat |-> rev, cat |-> fr[Top].cat, dur |-> fr[Top].dur, deps |-> flat,
                                      heads |-> [nh EXCEPT ![eq] = cit + 1]]
                      ELSE IF j \in HeadSet(nh) /\ memo[j].has
                           THEN [memo[j] EXCEPT !.it = cit + 1,
                                                !.heads = [memo[j].heads EXCEPT ![j] = IF @ # -1 THEN cit + 1 ELSE @]]
                      ELSE memo[j]];
            iteration := cit + 1;
            lphas := TRUE;
            lp := [has |-> TRUE, hv |-> TRUE, val |-> acc, final |-> FALSE, conv |-> FALSE, it |-> cit + 1,
                   vat |-> rev, cat |-> fr[Top].cat, dur |-> fr[Top].dur, deps |-> flat,
                   heads |-> [nh EXCEPT ![eq] = cit + 1]];
            rounds := rounds + 1;
            if (rounds > NF + 3) { bad := bad \cup {"TooManyIterations"}; goto E6; } else { goto E1; };
        };
     };
 E6: qstack := SubSeq(qstack, 1, Len(qstack) - 1);
     fr := SubSeq(fr, 1, Len(fr) - 1);
     return;
 EU: \* unwinding through execute_maybe_iterate: the frame is popped, the memo is poisoned, the claim is released
     memo[eq] := Poison(eq);
     lock := Released(eq);
     qstack := SubSeq(qstack, 1, Len(qstack) - 1);
     fr := SubSeq(fr, 1, Len(fr) - 1);
     return;
}

{
 L0: while (nops < MaxOps) {
        either {
            with (j \in F) { lastreq := j; call Fetch(j); };
 L1:        \* a value must be the from-scratch value; a propagated panic is only allowed in a revision in which a
            \* panic occurred (C22); nothing stays claimed or on the stack
            bad := bad \cup (IF unw = "" /\ rv # Expected[lastreq] THEN {IF Fb THEN "C13" ELSE "C12"} ELSE {})
                       \cup (IF unw = "pp" /\ lastpanic # rev THEN {"C22-PropagatedPanicInLaterRevision"} ELSE {})
                       \cup (IF qstack # <<>> THEN {"StackLeft"} ELSE {})
                       \cup (IF \E j \in F : lock[j] = "held" \/ (lock[j] = "xfer" /\ Owned(j)) THEN {"LockLeft"} ELSE {});
            nops := nops + 1;
            hist := Append(hist, [op |-> "get", f |-> lastreq, v |-> IF unw = "" THEN rv ELSE {}, ex |-> xlog,
                                  res |-> IF unw = "" THEN "ok" ELSE unw]);
            xlog := <<>>;
            unw := "";
        } or {
            await nwr < MaxWrites;
            inp := ~inp;
            rev := rev + 1;
            lastchg := rev;
            nwr := nwr + 1;
            nops := nops + 1;
            hist := Append(hist, [op |-> "set", f |-> 0, v |-> {}, ex |-> <<>>, res |-> "ok"]);
        } or {
            await npan < MaxPanics /\ armed = 0;
            with (j \in F) {
                armed := j;
                hist := Append(hist, [op |-> "arm", f |-> j, v |-> {}, ex |-> <<>>, res |-> "ok"]);
            };
            npan := npan + 1;
            nops := nops + 1;
        };
     };
 L2: if (Emit) { print "REPLAY|" \o ToJson([calls |-> prog.calls, gate |-> prog.gate, inp0 |-> IF (nwr % 2 = 0) = inp THEN 1 ELSE 0, h |-> hist]); };
}
} *)
\* BEGIN TRANSLATION
CONSTANT defaultInitValue
VARIABLES pc, prog, inp, rev, lastchg, memo, lock, xto, qstack, fr, rv, rh, 
          rcat, rdur, rchg, rok, capt, nops, nwr, lastreq, armed, npan, unw, 
          lastpanic, xlog, hist, bad, stack

(* define statement *)
calls == prog.calls
gate == prog.gate
Top == Len(qstack)
OnStack(j) == \E i \in 1..Len(qstack) : qstack[i] = j
RECURSIVE RootHeld(_, _)
RootHeld(j, n) == IF lock[j] = "held" THEN TRUE
                  ELSE IF lock[j] = "xfer" /\ n > 0 THEN RootHeld(xto[j], n - 1) ELSE FALSE
Owned(j) == RootHeld(j, NF)
RECURSIVE ChainHits(_, _, _)
ChainHits(j, r, n) == IF j = r THEN TRUE
                      ELSE IF lock[j] = "xfer" /\ n > 0 THEN ChainHits(xto[j], r, n - 1) ELSE FALSE
Released(r) == [j \in F |-> IF j = r \/ (lock[j] = "xfer" /\ ChainHits(j, r, NF)) THEN "free" ELSE lock[j]]


ShallowOK(m) == m.vat = rev \/ m.dur = NEVER \/ lastchg <= m.vat

ValidProvisional(m) ==
    \A h \in HeadSet(m.heads) : memo[h].has /\ memo[h].final /\ (Mut = "novat" \/ memo[h].vat = m.vat) /\ memo[h].it = m.heads[h]
SameIteration(j, m) ==
    /\ m.vat = rev
    /\ HeadSet(m.heads) \ {j} # {}
    /\ \A h \in HeadSet(m.heads) : Owned(h) /\ memo[h].has /\ memo[h].vat = m.vat /\ memo[h].it = m.heads[h]
ValidateMaybeProv(j, m) == m.final \/ HeadSet(m.heads) = {} \/ ValidProvisional(m) \/ SameIteration(j, m)
BecomesFinal(m) == ~m.final /\ HeadSet(m.heads) # {} /\ ValidProvisional(m)
HeadMemoMissing(m) == \E h \in HeadSet(m.heads) : Owned(h) /\ ~memo[h].has

RECURSIVE Clos(_, _, _)
Clos(me, S0, P) ==
    LET hs == (S0 \cup {p[1] : p \in P}) \ {me}
        P2 == P \cup UNION {{<<hh, memo[h].heads[hh]>> : hh \in HeadSet(memo[h].heads) \ S0} : h \in hs}
    IN IF P2 = P THEN P ELSE Clos(me, S0, P2)
Followed(me, S0, P) == (S0 \cup {p[1] : p \in P}) \ {me}
MaxIter(me, S0, P, it) ==
    MaxOf({it} \cup UNION {{memo[h].heads[hh] : hh \in HeadSet(memo[h].heads)} : h \in Followed(me, S0, P)})
Extend(hs, P) == [h \in F |-> IF hs[h] # -1 THEN hs[h]
                              ELSE IF \E p \in P : p[1] = h THEN (CHOOSE p \in P : p[1] = h)[2] ELSE -1]


OuterIdx(hs, me) == {i \in 1..(Top - 1) : qstack[i] # me /\ hs[qstack[i]] # -1}
OuterHeld(hs, me) == {h \in HeadSet(hs) \ {me} : lock[h] = "held" /\ ~OnStack(h)}
HasOuter(hs, me) == OuterIdx(hs, me) # {} \/ OuterHeld(hs, me) # {}
OuterOf(hs, me) == IF OuterIdx(hs, me) # {}
                   THEN qstack[CHOOSE i \in OuterIdx(hs, me) : \A k \in OuterIdx(hs, me) : i <= k]
                   ELSE CHOOSE h \in OuterHeld(hs, me) : \A k \in OuterHeld(hs, me) : k <= h


RECURSIVE FlatN(_, _, _, _)
FlatN(deps, i, out, seen) ==
    IF i > Len(deps) THEN out
    ELSE LET e == deps[i] IN
         IF e = EIN THEN FlatN(deps, i + 1, AddDep(out, EIN), seen)
         ELSE IF ~memo[e].has THEN FlatN(deps, i + 1, out, seen)
         ELSE IF memo[e].final THEN FlatN(deps, i + 1, AddDep(out, e), seen)
         ELSE IF e \in seen THEN FlatN(deps, i + 1, out, seen)
         ELSE FlatN(deps, i + 1, AddAll(out, memo[e].deps, 1), seen \cup {e})
Flatten(deps) == IF Mut = "noflat" THEN deps ELSE FlatN(deps, 1, <<>>, {})


CanBackdate(old, newheads, newdur, newval) ==
    old.has /\ HeadSet(newheads) = {} /\ old.final /\ newdur >= old.dur /\ old.val = newval
Backdated(old, newheads, newdur, newval, newcat) ==
    IF CanBackdate(old, newheads, newdur, newval) THEN old.cat ELSE newcat
BackdateFires(old, newheads, newdur, newval, newcat) ==
    CanBackdate(old, newheads, newdur, newval) /\ old.cat > newcat /\ HeadSet(old.heads) = {}


Poison(j) == [has |-> TRUE, hv |-> FALSE, val |-> {}, final |-> FALSE, heads |-> Only(j, 0), it |-> 0, conv |-> FALSE,
              vat |-> rev, cat |-> R0, dur |-> NEVER, deps |-> <<>>]
Expected == IF Fb THEN FbSem(prog, inp) ELSE Lfp(prog, inp)

VARIABLES fq, dq, di, dvat, mq, mr, eq, ci, acc, rounds, iteration, old, 
          lphas, lp, P, nh, dep, cit, last, flat

vars == << pc, prog, inp, rev, lastchg, memo, lock, xto, qstack, fr, rv, rh, 
           rcat, rdur, rchg, rok, capt, nops, nwr, lastreq, armed, npan, unw, 
           lastpanic, xlog, hist, bad, stack, fq, dq, di, dvat, mq, mr, eq, 
           ci, acc, rounds, iteration, old, lphas, lp, P, nh, dep, cit, last, 
           flat >>

Init == (* Global variables *)
        /\ prog \in Progs
        /\ inp \in BOOLEAN
        /\ rev = R0
        /\ lastchg = R0
        /\ memo = [j \in F |-> NoMemo]
        /\ lock = [j \in F |-> "free"]
        /\ xto = [j \in F |-> 0]
        /\ qstack = <<>>
        /\ fr = <<>>
        /\ rv = {}
        /\ rh = NoHeads
        /\ rcat = R0
        /\ rdur = NEVER
        /\ rchg = FALSE
        /\ rok = FALSE
        /\ capt = [j \in F |-> NoMemo]
        /\ nops = 0
        /\ nwr = 0
        /\ lastreq = 1
        /\ armed = 0
        /\ npan = 0
        /\ unw = ""
        /\ lastpanic = 0
        /\ xlog = <<>>
        /\ hist = <<>>
        /\ bad = {}
        (* Procedure Fetch *)
        /\ fq = defaultInitValue
        (* Procedure DeepVerify *)
        /\ dq = defaultInitValue
        /\ di = 1
        /\ dvat = 0
        (* Procedure MaybeChanged *)
        /\ mq = defaultInitValue
        /\ mr = defaultInitValue
        (* Procedure Exec *)
        /\ eq = defaultInitValue
        /\ ci = 1
        /\ acc = {}
        /\ rounds = 0
        /\ iteration = 0
        /\ old = NoMemo
        /\ lphas = FALSE
        /\ lp = NoMemo
        /\ P = {}
        /\ nh = NoHeads
        /\ dep = FALSE
        /\ cit = 0
        /\ last = NoMemo
        /\ flat = <<>>
        /\ stack = << >>
        /\ pc = "L0"

F0 == /\ pc = "F0"
      /\ IF memo[fq].has /\ memo[fq].hv /\ ShallowOK(memo[fq]) /\ memo[fq].final
            THEN /\ memo' = [memo EXCEPT ![fq].vat = rev]
                 /\ rv' = memo'[fq].val
                 /\ rh' = NoHeads
                 /\ rcat' = memo'[fq].cat
                 /\ rdur' = memo'[fq].dur
                 /\ pc' = Head(stack).pc
                 /\ fq' = Head(stack).fq
                 /\ stack' = Tail(stack)
                 /\ UNCHANGED << lock, capt, unw, bad, dq, di, dvat >>
            ELSE /\ IF lock[fq] = "held"
                       THEN /\ IF memo[fq].has /\ ~memo[fq].hv /\ ~memo[fq].final /\ memo[fq].vat = rev
                                  THEN /\ unw' = "pp"
                                       /\ UNCHANGED << memo, rv, rh, rcat, 
                                                       rdur >>
                                  ELSE /\ IF memo[fq].has /\ memo[fq].hv /\ memo[fq].vat = rev /\ memo[fq].heads[fq] # -1
                                             THEN /\ rv' = memo[fq].val
                                                  /\ rh' = Only(fq, memo[fq].heads[fq])
                                                  /\ rcat' = memo[fq].cat
                                                  /\ rdur' = memo[fq].dur
                                                  /\ memo' = [memo EXCEPT ![fq].heads = Only(fq, memo[fq].heads[fq])]
                                             ELSE /\ rv' = {}
                                                  /\ rcat' = R0
                                                  /\ rdur' = NEVER
                                                  /\ rh' = Only(fq, IF memo[fq].has /\ memo[fq].hv /\ memo[fq].vat = rev THEN memo[fq].it ELSE 0)
                                                  /\ memo' = [memo EXCEPT ![fq] = [has |-> TRUE, hv |-> TRUE, val |-> {}, final |-> FALSE, conv |-> FALSE, vat |-> rev, cat |-> R0,
                                                                                   dur |-> NEVER, deps |-> <<>>,
                                                                                   it |-> IF memo[fq].has /\ memo[fq].hv /\ memo[fq].vat = rev THEN memo[fq].it ELSE 0,
                                                                                   heads |-> Only(fq, IF memo[fq].has /\ memo[fq].hv /\ memo[fq].vat = rev THEN memo[fq].it ELSE 0)]]
                                       /\ unw' = unw
                            /\ pc' = Head(stack).pc
                            /\ fq' = Head(stack).fq
                            /\ stack' = Tail(stack)
                            /\ UNCHANGED << lock, capt, bad, dq, di, dvat >>
                       ELSE /\ IF lock[fq] = "xfer" /\ ~Owned(fq)
                                  THEN /\ lock' = [lock EXCEPT ![fq] = "free"]
                                       /\ pc' = "F0"
                                       /\ UNCHANGED << memo, rv, rh, rcat, 
                                                       rdur, capt, bad, stack, 
                                                       fq, dq, di, dvat >>
                                  ELSE /\ IF memo[fq].has /\ memo[fq].hv /\ ShallowOK(memo[fq]) /\ ValidateMaybeProv(fq, memo[fq])
                                             THEN /\ rv' = memo[fq].val
                                                  /\ rcat' = memo[fq].cat
                                                  /\ rdur' = memo[fq].dur
                                                  /\ rh' = (IF memo[fq].final \/ BecomesFinal(memo[fq]) THEN NoHeads ELSE memo[fq].heads)
                                                  /\ memo' = [memo EXCEPT ![fq] = [memo[fq] EXCEPT !.vat = rev, !.final = @ \/ BecomesFinal(memo[fq])]]
                                                  /\ pc' = Head(stack).pc
                                                  /\ fq' = Head(stack).fq
                                                  /\ stack' = Tail(stack)
                                                  /\ UNCHANGED << lock, capt, 
                                                                  bad, dq, di, 
                                                                  dvat >>
                                             ELSE /\ IF memo[fq].has /\ memo[fq].hv /\ memo[fq].final
                                                        THEN /\ lock' = [lock EXCEPT ![fq] = "held"]
                                                             /\ capt' = [capt EXCEPT ![fq] = memo[fq]]
                                                             /\ /\ dq' = fq
                                                                /\ stack' = << [ procedure |->  "DeepVerify",
                                                                                 pc        |->  "F3",
                                                                                 di        |->  di,
                                                                                 dvat      |->  dvat,
                                                                                 dq        |->  dq ] >>
                                                                             \o stack
                                                             /\ di' = 1
                                                             /\ dvat' = 0
                                                             /\ pc' = "D0"
                                                             /\ bad' = bad
                                                        ELSE /\ IF memo[fq].has /\ HeadMemoMissing(memo[fq])
                                                                   THEN /\ bad' = (bad \cup {"HeadMemoMissing"})
                                                                   ELSE /\ TRUE
                                                                        /\ bad' = bad
                                                             /\ pc' = "F1"
                                                             /\ UNCHANGED << lock, 
                                                                             capt, 
                                                                             stack, 
                                                                             dq, 
                                                                             di, 
                                                                             dvat >>
                                                  /\ UNCHANGED << memo, rv, rh, 
                                                                  rcat, rdur, 
                                                                  fq >>
                            /\ unw' = unw
      /\ UNCHANGED << prog, inp, rev, lastchg, xto, qstack, fr, rchg, rok, 
                      nops, nwr, lastreq, armed, npan, lastpanic, xlog, hist, 
                      mq, mr, eq, ci, acc, rounds, iteration, old, lphas, lp, 
                      P, nh, dep, cit, last, flat >>

F3 == /\ pc = "F3"
      /\ IF unw # ""
            THEN /\ lock' = Released(fq)
                 /\ pc' = Head(stack).pc
                 /\ fq' = Head(stack).fq
                 /\ stack' = Tail(stack)
                 /\ UNCHANGED << rv, rh, rcat, rdur >>
            ELSE /\ IF rok
                       THEN /\ lock' = Released(fq)
                            /\ rv' = memo[fq].val
                            /\ rh' = NoHeads
                            /\ rcat' = memo[fq].cat
                            /\ rdur' = memo[fq].dur
                            /\ pc' = Head(stack).pc
                            /\ fq' = Head(stack).fq
                            /\ stack' = Tail(stack)
                       ELSE /\ pc' = "F1b"
                            /\ UNCHANGED << lock, rv, rh, rcat, rdur, stack, 
                                            fq >>
      /\ UNCHANGED << prog, inp, rev, lastchg, memo, xto, qstack, fr, rchg, 
                      rok, capt, nops, nwr, lastreq, armed, npan, unw, 
                      lastpanic, xlog, hist, bad, dq, di, dvat, mq, mr, eq, ci, 
                      acc, rounds, iteration, old, lphas, lp, P, nh, dep, cit, 
                      last, flat >>

F1 == /\ pc = "F1"
      /\ capt' = [capt EXCEPT ![fq] = memo[fq]]
      /\ pc' = "F1b"
      /\ UNCHANGED << prog, inp, rev, lastchg, memo, lock, xto, qstack, fr, rv, 
                      rh, rcat, rdur, rchg, rok, nops, nwr, lastreq, armed, 
                      npan, unw, lastpanic, xlog, hist, bad, stack, fq, dq, di, 
                      dvat, mq, mr, eq, ci, acc, rounds, iteration, old, lphas, 
                      lp, P, nh, dep, cit, last, flat >>

F1b == /\ pc = "F1b"
       /\ /\ eq' = fq
          /\ stack' = << [ procedure |->  "Exec",
                           pc        |->  "F2",
                           ci        |->  ci,
                           acc       |->  acc,
                           rounds    |->  rounds,
                           iteration |->  iteration,
                           old       |->  old,
                           lphas     |->  lphas,
                           lp        |->  lp,
                           P         |->  P,
                           nh        |->  nh,
                           dep       |->  dep,
                           cit       |->  cit,
                           last      |->  last,
                           flat      |->  flat,
                           eq        |->  eq ] >>
                       \o stack
       /\ ci' = 1
       /\ acc' = {}
       /\ rounds' = 0
       /\ iteration' = 0
       /\ old' = NoMemo
       /\ lphas' = FALSE
       /\ lp' = NoMemo
       /\ P' = {}
       /\ nh' = NoHeads
       /\ dep' = FALSE
       /\ cit' = 0
       /\ last' = NoMemo
       /\ flat' = <<>>
       /\ pc' = "E0"
       /\ UNCHANGED << prog, inp, rev, lastchg, memo, lock, xto, qstack, fr, 
                       rv, rh, rcat, rdur, rchg, rok, capt, nops, nwr, lastreq, 
                       armed, npan, unw, lastpanic, xlog, hist, bad, fq, dq, 
                       di, dvat, mq, mr >>

F2 == /\ pc = "F2"
      /\ IF unw = ""
            THEN /\ rv' = memo[fq].val
                 /\ rcat' = memo[fq].cat
                 /\ rdur' = memo[fq].dur
                 /\ rh' = IF memo[fq].final THEN NoHeads ELSE memo[fq].heads
            ELSE /\ TRUE
                 /\ UNCHANGED << rv, rh, rcat, rdur >>
      /\ pc' = Head(stack).pc
      /\ fq' = Head(stack).fq
      /\ stack' = Tail(stack)
      /\ UNCHANGED << prog, inp, rev, lastchg, memo, lock, xto, qstack, fr, 
                      rchg, rok, capt, nops, nwr, lastreq, armed, npan, unw, 
                      lastpanic, xlog, hist, bad, dq, di, dvat, mq, mr, eq, ci, 
                      acc, rounds, iteration, old, lphas, lp, P, nh, dep, cit, 
                      last, flat >>

Fetch == F0 \/ F3 \/ F1 \/ F1b \/ F2

D0 == /\ pc = "D0"
      /\ dvat' = memo[dq].vat
      /\ pc' = "D1"
      /\ UNCHANGED << prog, inp, rev, lastchg, memo, lock, xto, qstack, fr, rv, 
                      rh, rcat, rdur, rchg, rok, capt, nops, nwr, lastreq, 
                      armed, npan, unw, lastpanic, xlog, hist, bad, stack, fq, 
                      dq, di, mq, mr, eq, ci, acc, rounds, iteration, old, 
                      lphas, lp, P, nh, dep, cit, last, flat >>

D1 == /\ pc = "D1"
      /\ IF di <= Len(memo[dq].deps)
            THEN /\ IF memo[dq].deps[di] = EIN
                       THEN /\ IF lastchg > dvat
                                  THEN /\ rok' = FALSE
                                       /\ pc' = Head(stack).pc
                                       /\ di' = Head(stack).di
                                       /\ dvat' = Head(stack).dvat
                                       /\ dq' = Head(stack).dq
                                       /\ stack' = Tail(stack)
                                  ELSE /\ di' = di + 1
                                       /\ pc' = "D1"
                                       /\ UNCHANGED << rok, stack, dq, dvat >>
                            /\ UNCHANGED << mq, mr >>
                       ELSE /\ IF Mut = "nodeep"
                                  THEN /\ di' = di + 1
                                       /\ pc' = "D1"
                                       /\ UNCHANGED << stack, mq, mr >>
                                  ELSE /\ /\ mq' = memo[dq].deps[di]
                                          /\ mr' = dvat
                                          /\ stack' = << [ procedure |->  "MaybeChanged",
                                                           pc        |->  "D2",
                                                           mq        |->  mq,
                                                           mr        |->  mr ] >>
                                                       \o stack
                                       /\ pc' = "M0"
                                       /\ di' = di
                            /\ UNCHANGED << rok, dq, dvat >>
            ELSE /\ pc' = "D3"
                 /\ UNCHANGED << rok, stack, dq, di, dvat, mq, mr >>
      /\ UNCHANGED << prog, inp, rev, lastchg, memo, lock, xto, qstack, fr, rv, 
                      rh, rcat, rdur, rchg, capt, nops, nwr, lastreq, armed, 
                      npan, unw, lastpanic, xlog, hist, bad, fq, eq, ci, acc, 
                      rounds, iteration, old, lphas, lp, P, nh, dep, cit, last, 
                      flat >>

D2 == /\ pc = "D2"
      /\ IF unw # "" \/ rchg
            THEN /\ rok' = FALSE
                 /\ pc' = Head(stack).pc
                 /\ di' = Head(stack).di
                 /\ dvat' = Head(stack).dvat
                 /\ dq' = Head(stack).dq
                 /\ stack' = Tail(stack)
            ELSE /\ di' = di + 1
                 /\ pc' = "D1"
                 /\ UNCHANGED << rok, stack, dq, dvat >>
      /\ UNCHANGED << prog, inp, rev, lastchg, memo, lock, xto, qstack, fr, rv, 
                      rh, rcat, rdur, rchg, capt, nops, nwr, lastreq, armed, 
                      npan, unw, lastpanic, xlog, hist, bad, fq, mq, mr, eq, 
                      ci, acc, rounds, iteration, old, lphas, lp, P, nh, dep, 
                      cit, last, flat >>

D3 == /\ pc = "D3"
      /\ memo' = [memo EXCEPT ![dq].vat = rev]
      /\ rok' = TRUE
      /\ pc' = Head(stack).pc
      /\ di' = Head(stack).di
      /\ dvat' = Head(stack).dvat
      /\ dq' = Head(stack).dq
      /\ stack' = Tail(stack)
      /\ UNCHANGED << prog, inp, rev, lastchg, lock, xto, qstack, fr, rv, rh, 
                      rcat, rdur, rchg, capt, nops, nwr, lastreq, armed, npan, 
                      unw, lastpanic, xlog, hist, bad, fq, mq, mr, eq, ci, acc, 
                      rounds, iteration, old, lphas, lp, P, nh, dep, cit, last, 
                      flat >>

DeepVerify == D0 \/ D1 \/ D2 \/ D3

M0 == /\ pc = "M0"
      /\ IF ~memo[mq].has
            THEN /\ rchg' = TRUE
                 /\ pc' = Head(stack).pc
                 /\ mq' = Head(stack).mq
                 /\ mr' = Head(stack).mr
                 /\ stack' = Tail(stack)
                 /\ UNCHANGED << memo, lock, capt, dq, di, dvat >>
            ELSE /\ IF ShallowOK(memo[mq]) /\ memo[mq].final
                       THEN /\ memo' = [memo EXCEPT ![mq].vat = rev]
                            /\ rchg' = (memo'[mq].cat > mr)
                            /\ pc' = Head(stack).pc
                            /\ mq' = Head(stack).mq
                            /\ mr' = Head(stack).mr
                            /\ stack' = Tail(stack)
                            /\ UNCHANGED << lock, capt, dq, di, dvat >>
                       ELSE /\ IF lock[mq] = "held" \/ (lock[mq] = "xfer" /\ Owned(mq))
                                  THEN /\ rchg' = TRUE
                                       /\ pc' = Head(stack).pc
                                       /\ mq' = Head(stack).mq
                                       /\ mr' = Head(stack).mr
                                       /\ stack' = Tail(stack)
                                       /\ UNCHANGED << memo, lock, capt, dq, 
                                                       di, dvat >>
                                  ELSE /\ IF ShallowOK(memo[mq]) /\ ValidateMaybeProv(mq, memo[mq])
                                             THEN /\ rchg' = (memo[mq].cat > mr)
                                                  /\ memo' = [memo EXCEPT ![mq] = [memo[mq] EXCEPT !.vat = rev, !.final = @ \/ BecomesFinal(memo[mq])]]
                                                  /\ pc' = Head(stack).pc
                                                  /\ mq' = Head(stack).mq
                                                  /\ mr' = Head(stack).mr
                                                  /\ stack' = Tail(stack)
                                                  /\ UNCHANGED << lock, capt, 
                                                                  dq, di, dvat >>
                                             ELSE /\ IF ~memo[mq].final
                                                        THEN /\ rchg' = TRUE
                                                             /\ pc' = Head(stack).pc
                                                             /\ mq' = Head(stack).mq
                                                             /\ mr' = Head(stack).mr
                                                             /\ stack' = Tail(stack)
                                                             /\ UNCHANGED << lock, 
                                                                             capt, 
                                                                             dq, 
                                                                             di, 
                                                                             dvat >>
                                                        ELSE /\ lock' = [lock EXCEPT ![mq] = "held"]
                                                             /\ capt' = [capt EXCEPT ![mq] = memo[mq]]
                                                             /\ /\ dq' = mq
                                                                /\ stack' = << [ procedure |->  "DeepVerify",
                                                                                 pc        |->  "M1",
                                                                                 di        |->  di,
                                                                                 dvat      |->  dvat,
                                                                                 dq        |->  dq ] >>
                                                                             \o stack
                                                             /\ di' = 1
                                                             /\ dvat' = 0
                                                             /\ pc' = "D0"
                                                             /\ UNCHANGED << rchg, 
                                                                             mq, 
                                                                             mr >>
                                                  /\ memo' = memo
      /\ UNCHANGED << prog, inp, rev, lastchg, xto, qstack, fr, rv, rh, rcat, 
                      rdur, rok, nops, nwr, lastreq, armed, npan, unw, 
                      lastpanic, xlog, hist, bad, fq, eq, ci, acc, rounds, 
                      iteration, old, lphas, lp, P, nh, dep, cit, last, flat >>

M1 == /\ pc = "M1"
      /\ IF unw # ""
            THEN /\ lock' = Released(mq)
                 /\ pc' = Head(stack).pc
                 /\ mq' = Head(stack).mq
                 /\ mr' = Head(stack).mr
                 /\ stack' = Tail(stack)
                 /\ rchg' = rchg
            ELSE /\ IF rok
                       THEN /\ lock' = Released(mq)
                            /\ rchg' = (memo[mq].cat > mr)
                            /\ pc' = Head(stack).pc
                            /\ mq' = Head(stack).mq
                            /\ mr' = Head(stack).mr
                            /\ stack' = Tail(stack)
                       ELSE /\ IF ~memo[mq].hv
                                  THEN /\ lock' = Released(mq)
                                       /\ rchg' = TRUE
                                       /\ pc' = Head(stack).pc
                                       /\ mq' = Head(stack).mq
                                       /\ mr' = Head(stack).mr
                                       /\ stack' = Tail(stack)
                                  ELSE /\ pc' = "M2"
                                       /\ UNCHANGED << lock, rchg, stack, mq, 
                                                       mr >>
      /\ UNCHANGED << prog, inp, rev, lastchg, memo, xto, qstack, fr, rv, rh, 
                      rcat, rdur, rok, capt, nops, nwr, lastreq, armed, npan, 
                      unw, lastpanic, xlog, hist, bad, fq, dq, di, dvat, eq, 
                      ci, acc, rounds, iteration, old, lphas, lp, P, nh, dep, 
                      cit, last, flat >>

M2 == /\ pc = "M2"
      /\ /\ eq' = mq
         /\ stack' = << [ procedure |->  "Exec",
                          pc        |->  "M3",
                          ci        |->  ci,
                          acc       |->  acc,
                          rounds    |->  rounds,
                          iteration |->  iteration,
                          old       |->  old,
                          lphas     |->  lphas,
                          lp        |->  lp,
                          P         |->  P,
                          nh        |->  nh,
                          dep       |->  dep,
                          cit       |->  cit,
                          last      |->  last,
                          flat      |->  flat,
                          eq        |->  eq ] >>
                      \o stack
      /\ ci' = 1
      /\ acc' = {}
      /\ rounds' = 0
      /\ iteration' = 0
      /\ old' = NoMemo
      /\ lphas' = FALSE
      /\ lp' = NoMemo
      /\ P' = {}
      /\ nh' = NoHeads
      /\ dep' = FALSE
      /\ cit' = 0
      /\ last' = NoMemo
      /\ flat' = <<>>
      /\ pc' = "E0"
      /\ UNCHANGED << prog, inp, rev, lastchg, memo, lock, xto, qstack, fr, rv, 
                      rh, rcat, rdur, rchg, rok, capt, nops, nwr, lastreq, 
                      armed, npan, unw, lastpanic, xlog, hist, bad, fq, dq, di, 
                      dvat, mq, mr >>

M3 == /\ pc = "M3"
      /\ rchg' = (memo[mq].cat > mr \/ ~memo[mq].final)
      /\ pc' = Head(stack).pc
      /\ mq' = Head(stack).mq
      /\ mr' = Head(stack).mr
      /\ stack' = Tail(stack)
      /\ UNCHANGED << prog, inp, rev, lastchg, memo, lock, xto, qstack, fr, rv, 
                      rh, rcat, rdur, rok, capt, nops, nwr, lastreq, armed, 
                      npan, unw, lastpanic, xlog, hist, bad, fq, dq, di, dvat, 
                      eq, ci, acc, rounds, iteration, old, lphas, lp, P, nh, 
                      dep, cit, last, flat >>

MaybeChanged == M0 \/ M1 \/ M2 \/ M3

E0 == /\ pc = "E0"
      /\ IF capt[eq].has /\ capt[eq].vat = rev /\ ~capt[eq].hv
            THEN /\ unw' = "pp"
                 /\ lock' = Released(eq)
                 /\ pc' = Head(stack).pc
                 /\ ci' = Head(stack).ci
                 /\ acc' = Head(stack).acc
                 /\ rounds' = Head(stack).rounds
                 /\ iteration' = Head(stack).iteration
                 /\ old' = Head(stack).old
                 /\ lphas' = Head(stack).lphas
                 /\ lp' = Head(stack).lp
                 /\ P' = Head(stack).P
                 /\ nh' = Head(stack).nh
                 /\ dep' = Head(stack).dep
                 /\ cit' = Head(stack).cit
                 /\ last' = Head(stack).last
                 /\ flat' = Head(stack).flat
                 /\ eq' = Head(stack).eq
                 /\ stack' = Tail(stack)
                 /\ UNCHANGED << qstack, fr >>
            ELSE /\ lock' = [lock EXCEPT ![eq] = "held"]
                 /\ old' = capt[eq]
                 /\ iteration' = (IF capt[eq].has /\ capt[eq].vat = rev THEN capt[eq].it ELSE 0)
                 /\ lphas' = (capt[eq].has /\ capt[eq].hv /\ capt[eq].vat = rev /\ capt[eq].heads[eq] # -1)
                 /\ lp' = capt[eq]
                 /\ qstack' = Append(qstack, eq)
                 /\ fr' = Append(fr, Frame0)
                 /\ pc' = "E1"
                 /\ UNCHANGED << unw, stack, eq, ci, acc, rounds, P, nh, dep, 
                                 cit, last, flat >>
      /\ UNCHANGED << prog, inp, rev, lastchg, memo, xto, rv, rh, rcat, rdur, 
                      rchg, rok, capt, nops, nwr, lastreq, armed, npan, 
                      lastpanic, xlog, hist, bad, fq, dq, di, dvat, mq, mr >>

E1 == /\ pc = "E1"
      /\ ci' = 1
      /\ acc' = {eq}
      /\ xlog' = Append(xlog, eq)
      /\ IF armed = eq
            THEN /\ armed' = 0
                 /\ unw' = "user"
                 /\ lastpanic' = rev
                 /\ pc' = "EU"
                 /\ fr' = fr
            ELSE /\ LET hdr == IF lphas THEN lp ELSE old IN
                      fr' = [fr EXCEPT ![Top] = IF hdr.has /\ ~hdr.final /\ hdr.vat = rev
                                                THEN [Frame0 EXCEPT !.cat = Max2(R0, hdr.cat), !.dur = Min2(NEVER, hdr.dur)]
                                                ELSE Frame0]
                 /\ pc' = "E2"
                 /\ UNCHANGED << armed, unw, lastpanic >>
      /\ UNCHANGED << prog, inp, rev, lastchg, memo, lock, xto, qstack, rv, rh, 
                      rcat, rdur, rchg, rok, capt, nops, nwr, lastreq, npan, 
                      hist, bad, stack, fq, dq, di, dvat, mq, mr, eq, rounds, 
                      iteration, old, lphas, lp, P, nh, dep, cit, last, flat >>

E2 == /\ pc = "E2"
      /\ IF ci <= Len(calls[eq])
            THEN /\ IF gate[eq] = ci
                       THEN /\ fr' = [fr EXCEPT ![Top] = [fr[Top] EXCEPT !.deps = AddDep(@, EIN), !.cat = Max2(@, lastchg), !.dur = LOW]]
                       ELSE /\ TRUE
                            /\ fr' = fr
                 /\ IF gate[eq] = ci /\ ~inp
                       THEN /\ ci' = ci + 1
                            /\ pc' = "E2"
                            /\ UNCHANGED << stack, fq >>
                       ELSE /\ /\ fq' = calls[eq][ci]
                               /\ stack' = << [ procedure |->  "Fetch",
                                                pc        |->  "E3",
                                                fq        |->  fq ] >>
                                            \o stack
                            /\ pc' = "F0"
                            /\ ci' = ci
            ELSE /\ pc' = "E4"
                 /\ UNCHANGED << fr, stack, fq, ci >>
      /\ UNCHANGED << prog, inp, rev, lastchg, memo, lock, xto, qstack, rv, rh, 
                      rcat, rdur, rchg, rok, capt, nops, nwr, lastreq, armed, 
                      npan, unw, lastpanic, xlog, hist, bad, dq, di, dvat, mq, 
                      mr, eq, acc, rounds, iteration, old, lphas, lp, P, nh, 
                      dep, cit, last, flat >>

E3 == /\ pc = "E3"
      /\ IF unw # ""
            THEN /\ pc' = "EU"
            ELSE /\ pc' = "E3b"
      /\ UNCHANGED << prog, inp, rev, lastchg, memo, lock, xto, qstack, fr, rv, 
                      rh, rcat, rdur, rchg, rok, capt, nops, nwr, lastreq, 
                      armed, npan, unw, lastpanic, xlog, hist, bad, stack, fq, 
                      dq, di, dvat, mq, mr, eq, ci, acc, rounds, iteration, 
                      old, lphas, lp, P, nh, dep, cit, last, flat >>

E3b == /\ pc = "E3b"
       /\ acc' = (acc \cup rv)
       /\ IF \E h \in F : rh[h] # -1 /\ fr[Top].heads[h] # -1 /\ fr[Top].heads[h] # rh[h]
             THEN /\ bad' = (bad \cup {"HeadIterationAssert"})
             ELSE /\ TRUE
                  /\ bad' = bad
       /\ fr' = [fr EXCEPT ![Top] = [fr[Top] EXCEPT
                                       !.heads = [h \in F |-> IF @[h] # -1 THEN @[h] ELSE rh[h]],
                                       !.cat = Max2(@, rcat), !.dur = Min2(@, rdur),
                                       !.deps = IF rdur # NEVER \/ HeadSet(rh) # {} THEN AddDep(@, calls[eq][ci]) ELSE @]]
       /\ ci' = ci + 1
       /\ pc' = "E2"
       /\ UNCHANGED << prog, inp, rev, lastchg, memo, lock, xto, qstack, rv, 
                       rh, rcat, rdur, rchg, rok, capt, nops, nwr, lastreq, 
                       armed, npan, unw, lastpanic, xlog, hist, stack, fq, dq, 
                       di, dvat, mq, mr, eq, rounds, iteration, old, lphas, lp, 
                       P, nh, dep, cit, last, flat >>

E4 == /\ pc = "E4"
      /\ IF HeadSet(fr[Top].heads) = {}
            THEN /\ IF BackdateFires(old, NoHeads, fr[Top].dur, acc, fr[Top].cat)
                       THEN /\ bad' = (bad \cup {"BackdateViolation"})
                       ELSE /\ TRUE
                            /\ bad' = bad
                 /\ memo' = [memo EXCEPT ![eq] = [has |-> TRUE, hv |-> TRUE, val |-> acc, final |-> TRUE, heads |-> NoHeads, conv |-> FALSE, vat |-> rev,
                                                  it |-> IF iteration = 0 THEN 0 ELSE iteration + 1,
                                                  cat |-> Backdated(old, NoHeads, fr[Top].dur, acc, fr[Top].cat), dur |-> fr[Top].dur,
                                                  deps |-> IF fr[Top].dur = NEVER THEN <<>> ELSE fr[Top].deps]]
                 /\ lock' = Released(eq)
                 /\ pc' = "E6"
                 /\ UNCHANGED << P, flat >>
            ELSE /\ P' = Clos(eq, HeadSet(fr[Top].heads), {})
                 /\ flat' = Flatten(fr[Top].deps)
                 /\ pc' = "E5"
                 /\ UNCHANGED << memo, lock, bad >>
      /\ UNCHANGED << prog, inp, rev, lastchg, xto, qstack, fr, rv, rh, rcat, 
                      rdur, rchg, rok, capt, nops, nwr, lastreq, armed, npan, 
                      unw, lastpanic, xlog, hist, stack, fq, dq, di, dvat, mq, 
                      mr, eq, ci, acc, rounds, iteration, old, lphas, lp, nh, 
                      dep, cit, last >>

E5 == /\ pc = "E5"
      /\ IF \E h \in Followed(eq, HeadSet(fr[Top].heads), P) : ~memo[h].has \/ memo[h].final
            THEN /\ bad' = (bad \cup {"HeadNotProvisional"})
            ELSE /\ IF \E p1 \in P, p2 \in P : p1[1] = p2[1] /\ p1[2] # p2[2]
                       THEN /\ bad' = (bad \cup {"HeadIterationAssert"})
                       ELSE /\ TRUE
                            /\ bad' = bad
      /\ nh' = Extend(fr[Top].heads, P)
      /\ dep' = (eq \in HeadSet(fr[Top].heads) \/ (\E p \in P : p[1] = eq))
      /\ cit' = MaxIter(eq, HeadSet(fr[Top].heads), P, iteration)
      /\ pc' = "E7"
      /\ UNCHANGED << prog, inp, rev, lastchg, memo, lock, xto, qstack, fr, rv, 
                      rh, rcat, rdur, rchg, rok, capt, nops, nwr, lastreq, 
                      armed, npan, unw, lastpanic, xlog, hist, stack, fq, dq, 
                      di, dvat, mq, mr, eq, ci, acc, rounds, iteration, old, 
                      lphas, lp, P, last, flat >>

E7 == /\ pc = "E7"
      /\ IF ~dep
            THEN /\ IF ~HasOuter(nh, eq)
                       THEN /\ bad' = (bad \cup {"NoOuterCycle"})
                            /\ lock' = Released(eq)
                            /\ xto' = xto
                       ELSE /\ lock' = [lock EXCEPT ![eq] = "xfer"]
                            /\ xto' = [xto EXCEPT ![eq] = OuterOf(nh, eq)]
                            /\ bad' = bad
                 /\ memo' = [memo EXCEPT ![eq] = [has |-> TRUE, hv |-> TRUE, val |-> IF Fb THEN {} ELSE acc, final |-> FALSE, heads |-> nh, conv |-> FALSE, it |-> iteration + 1,
                                                  vat |-> rev, cat |-> fr[Top].cat, dur |-> fr[Top].dur, deps |-> flat]]
                 /\ pc' = "E6"
                 /\ UNCHANGED << acc, last >>
            ELSE /\ IF ~lphas /\ ~memo[eq].has
                       THEN /\ bad' = (bad \cup {"NoProvisionalMemo"})
                       ELSE /\ TRUE
                            /\ bad' = bad
                 /\ last' = IF lphas THEN lp ELSE memo[eq]
                 /\ acc' = IF Fb THEN {} ELSE acc
                 /\ pc' = "E8"
                 /\ UNCHANGED << memo, lock, xto >>
      /\ UNCHANGED << prog, inp, rev, lastchg, qstack, fr, rv, rh, rcat, rdur, 
                      rchg, rok, capt, nops, nwr, lastreq, armed, npan, unw, 
                      lastpanic, xlog, hist, stack, fq, dq, di, dvat, mq, mr, 
                      eq, ci, rounds, iteration, old, lphas, lp, P, nh, dep, 
                      cit, flat >>

E8 == /\ pc = "E8"
      /\ IF HasOuter(nh, eq)
            THEN /\ memo' = [memo EXCEPT ![eq] = [has |-> TRUE, hv |-> TRUE, val |-> acc, final |-> FALSE, heads |-> nh, it |-> iteration, vat |-> rev,
                                                  conv |-> (acc = last.val /\ last.dur = fr[Top].dur /\ last.cat = fr[Top].cat),
                                                  cat |-> fr[Top].cat, dur |-> fr[Top].dur, deps |-> flat]]
                 /\ lock' = [lock EXCEPT ![eq] = "xfer"]
                 /\ xto' = [xto EXCEPT ![eq] = OuterOf(nh, eq)]
                 /\ pc' = "E6"
                 /\ UNCHANGED << bad, rounds, iteration, lphas, lp >>
            ELSE /\ IF acc = last.val /\ (Mut = "nometa" \/ (last.dur = fr[Top].dur /\ last.cat = fr[Top].cat))
                       /\ \A h \in HeadSet(nh) \ {eq} : ~memo[h].has \/ memo[h].conv
                       THEN /\ IF BackdateFires(old, NoHeads, fr[Top].dur, acc, fr[Top].cat)
                                  THEN /\ bad' = (bad \cup {"BackdateViolation"})
                                  ELSE /\ TRUE
                                       /\ bad' = bad
                            /\ memo' = [j \in F |->
                                         IF j = eq THEN [has |-> TRUE, hv |-> TRUE, val |-> acc, final |-> TRUE, heads |-> NoHeads, conv |-> FALSE,
                                                         it |-> iteration, vat |-> rev, dur |-> fr[Top].dur,
                                                         cat |-> Backdated(old, NoHeads, fr[Top].dur, acc, fr[Top].cat),
                                                         deps |-> IF fr[Top].dur = NEVER THEN <<>> ELSE flat]
                                         ELSE IF j \in HeadSet(nh) /\ memo[j].has THEN [memo[j] EXCEPT !.final = TRUE]
                                         ELSE memo[j]]
                            /\ lock' = Released(eq)
                            /\ pc' = "E6"
                            /\ UNCHANGED << rounds, iteration, lphas, lp >>
                       ELSE /\ memo' = [j \in F |->
                                         IF j = eq THEN [has |-> TRUE, hv |-> TRUE, val |-> acc, final |-> FALSE, conv |-> FALSE, it |-> cit + 1,
                                                         vat |-> rev, cat |-> fr[Top].cat, dur |-> fr[Top].dur, deps |-> flat,
                                                         heads |-> [nh EXCEPT ![eq] = cit + 1]]
                                         ELSE IF j \in HeadSet(nh) /\ memo[j].has
                                              THEN [memo[j] EXCEPT !.it = cit + 1,
                                                                   !.heads = [memo[j].heads EXCEPT ![j] = IF @ # -1 THEN cit + 1 ELSE @]]
                                         ELSE memo[j]]
                            /\ iteration' = cit + 1
                            /\ lphas' = TRUE
                            /\ lp' = [has |-> TRUE, hv |-> TRUE, val |-> acc, final |-> FALSE, conv |-> FALSE, it |-> cit + 1,
                                      vat |-> rev, cat |-> fr[Top].cat, dur |-> fr[Top].dur, deps |-> flat,
                                      heads |-> [nh EXCEPT ![eq] = cit + 1]]
                            /\ rounds' = rounds + 1
                            /\ IF rounds' > NF + 3
                                  THEN /\ bad' = (bad \cup {"TooManyIterations"})
                                       /\ pc' = "E6"
                                  ELSE /\ pc' = "E1"
                                       /\ bad' = bad
                            /\ lock' = lock
                 /\ xto' = xto
      /\ UNCHANGED << prog, inp, rev, lastchg, qstack, fr, rv, rh, rcat, rdur, 
                      rchg, rok, capt, nops, nwr, lastreq, armed, npan, unw, 
                      lastpanic, xlog, hist, stack, fq, dq, di, dvat, mq, mr, 
                      eq, ci, acc, old, P, nh, dep, cit, last, flat >>

E6 == /\ pc = "E6"
      /\ qstack' = SubSeq(qstack, 1, Len(qstack) - 1)
      /\ fr' = SubSeq(fr, 1, Len(fr) - 1)
      /\ pc' = Head(stack).pc
      /\ ci' = Head(stack).ci
      /\ acc' = Head(stack).acc
      /\ rounds' = Head(stack).rounds
      /\ iteration' = Head(stack).iteration
      /\ old' = Head(stack).old
      /\ lphas' = Head(stack).lphas
      /\ lp' = Head(stack).lp
      /\ P' = Head(stack).P
      /\ nh' = Head(stack).nh
      /\ dep' = Head(stack).dep
      /\ cit' = Head(stack).cit
      /\ last' = Head(stack).last
      /\ flat' = Head(stack).flat
      /\ eq' = Head(stack).eq
      /\ stack' = Tail(stack)
      /\ UNCHANGED << prog, inp, rev, lastchg, memo, lock, xto, rv, rh, rcat, 
                      rdur, rchg, rok, capt, nops, nwr, lastreq, armed, npan, 
                      unw, lastpanic, xlog, hist, bad, fq, dq, di, dvat, mq, 
                      mr >>

EU == /\ pc = "EU"
      /\ memo' = [memo EXCEPT ![eq] = Poison(eq)]
      /\ lock' = Released(eq)
      /\ qstack' = SubSeq(qstack, 1, Len(qstack) - 1)
      /\ fr' = SubSeq(fr, 1, Len(fr) - 1)
      /\ pc' = Head(stack).pc
      /\ ci' = Head(stack).ci
      /\ acc' = Head(stack).acc
      /\ rounds' = Head(stack).rounds
      /\ iteration' = Head(stack).iteration
      /\ old' = Head(stack).old
      /\ lphas' = Head(stack).lphas
      /\ lp' = Head(stack).lp
      /\ P' = Head(stack).P
      /\ nh' = Head(stack).nh
      /\ dep' = Head(stack).dep
      /\ cit' = Head(stack).cit
      /\ last' = Head(stack).last
      /\ flat' = Head(stack).flat
      /\ eq' = Head(stack).eq
      /\ stack' = Tail(stack)
      /\ UNCHANGED << prog, inp, rev, lastchg, xto, rv, rh, rcat, rdur, rchg, 
                      rok, capt, nops, nwr, lastreq, armed, npan, unw, 
                      lastpanic, xlog, hist, bad, fq, dq, di, dvat, mq, mr >>

Exec == E0 \/ E1 \/ E2 \/ E3 \/ E3b \/ E4 \/ E5 \/ E7 \/ E8 \/ E6 \/ EU

L0 == /\ pc = "L0"
      /\ IF nops < MaxOps
            THEN /\ \/ /\ \E j \in F:
                            /\ lastreq' = j
                            /\ /\ fq' = j
                               /\ stack' = << [ procedure |->  "Fetch",
                                                pc        |->  "L1",
                                                fq        |->  fq ] >>
                                            \o stack
                            /\ pc' = "F0"
                       /\ UNCHANGED <<inp, rev, lastchg, nops, nwr, armed, npan, hist>>
                    \/ /\ nwr < MaxWrites
                       /\ inp' = ~inp
                       /\ rev' = rev + 1
                       /\ lastchg' = rev'
                       /\ nwr' = nwr + 1
                       /\ nops' = nops + 1
                       /\ hist' = Append(hist, [op |-> "set", f |-> 0, v |-> {}, ex |-> <<>>, res |-> "ok"])
                       /\ pc' = "L0"
                       /\ UNCHANGED <<lastreq, armed, npan, stack, fq>>
                    \/ /\ npan < MaxPanics /\ armed = 0
                       /\ \E j \in F:
                            /\ armed' = j
                            /\ hist' = Append(hist, [op |-> "arm", f |-> j, v |-> {}, ex |-> <<>>, res |-> "ok"])
                       /\ npan' = npan + 1
                       /\ nops' = nops + 1
                       /\ pc' = "L0"
                       /\ UNCHANGED <<inp, rev, lastchg, nwr, lastreq, stack, fq>>
            ELSE /\ pc' = "L2"
                 /\ UNCHANGED << inp, rev, lastchg, nops, nwr, lastreq, armed, 
                                 npan, hist, stack, fq >>
      /\ UNCHANGED << prog, memo, lock, xto, qstack, fr, rv, rh, rcat, rdur, 
                      rchg, rok, capt, unw, lastpanic, xlog, bad, dq, di, dvat, 
                      mq, mr, eq, ci, acc, rounds, iteration, old, lphas, lp, 
                      P, nh, dep, cit, last, flat >>

L1 == /\ pc = "L1"
      /\ bad' = (bad \cup (IF unw = "" /\ rv # Expected[lastreq] THEN {IF Fb THEN "C13" ELSE "C12"} ELSE {})
                     \cup (IF unw = "pp" /\ lastpanic # rev THEN {"C22-PropagatedPanicInLaterRevision"} ELSE {})
                     \cup (IF qstack # <<>> THEN {"StackLeft"} ELSE {})
                     \cup (IF \E j \in F : lock[j] = "held" \/ (lock[j] = "xfer" /\ Owned(j)) THEN {"LockLeft"} ELSE {}))
      /\ nops' = nops + 1
      /\ hist' = Append(hist, [op |-> "get", f |-> lastreq, v |-> IF unw = "" THEN rv ELSE {}, ex |-> xlog,
                               res |-> IF unw = "" THEN "ok" ELSE unw])
      /\ xlog' = <<>>
      /\ unw' = ""
      /\ pc' = "L0"
      /\ UNCHANGED << prog, inp, rev, lastchg, memo, lock, xto, qstack, fr, rv, 
                      rh, rcat, rdur, rchg, rok, capt, nwr, lastreq, armed, 
                      npan, lastpanic, stack, fq, dq, di, dvat, mq, mr, eq, ci, 
                      acc, rounds, iteration, old, lphas, lp, P, nh, dep, cit, 
                      last, flat >>

L2 == /\ pc = "L2"
      /\ IF Emit
            THEN /\ PrintT("REPLAY|" \o ToJson([calls |-> prog.calls, gate |-> prog.gate, inp0 |-> IF (nwr % 2 = 0) = inp THEN 1 ELSE 0, h |-> hist]))
            ELSE /\ TRUE
      /\ pc' = "Done"
      /\ UNCHANGED << prog, inp, rev, lastchg, memo, lock, xto, qstack, fr, rv, 
                      rh, rcat, rdur, rchg, rok, capt, nops, nwr, lastreq, 
                      armed, npan, unw, lastpanic, xlog, hist, bad, stack, fq, 
                      dq, di, dvat, mq, mr, eq, ci, acc, rounds, iteration, 
                      old, lphas, lp, P, nh, dep, cit, last, flat >>

(* Allow infinite stuttering to prevent deadlock on termination. *)
Terminating == pc = "Done" /\ UNCHANGED vars

Next == Fetch \/ DeepVerify \/ MaybeChanged \/ Exec \/ L0 \/ L1 \/ L2
           \/ Terminating

Spec == Init /\ [][Next]_vars

Termination == <>(pc = "Done")

\* END TRANSLATION
=============================================================================
