SPECIFICATION Spec
CONSTANTS
  NF = 3
  MaxReq = 2
  Emit = FALSE
  Mut = "none"
  defaultInitValue = 0
INVARIANTS NoBad FinalIsLfp ProvBelowLfp LocksQuiescent HeldIsOnStack
CHECK_DEADLOCK FALSE
