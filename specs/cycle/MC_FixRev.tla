----------------------------- MODULE MC_FixRev -----------------------------
EXTENDS FixRev
CallLists == {<<>>} \cup {<<a>> : a \in F} \cup {<<a, b>> : a \in F, b \in F}
\* all programs: every function has up to two callees and at most one gated call
AllProgs == {p \in [calls : [F -> CallLists], gate : [F -> 0..2]] : \A j \in F : p.gate[j] <= Len(p.calls[j])}
\* programs in which exactly GatedMax functions at most have a gate
FewGates(n) == {p \in AllProgs : Cardinality({j \in F : p.gate[j] # 0}) <= n}
Progs1 == FewGates(1)
NoBad == bad = {}
\* fallback configuration: salsa's fallback cycles are history dependent (known findings F3, F4), the model
\* reproduces that; everything else must hold
NoBadFb == bad \subseteq {"C13"}
FinalIsLfp == \A j \in F : (memo[j].has /\ memo[j].final /\ ShallowOK(memo[j])) => memo[j].val = Expected[j]
LocksQuiescent == (pc = "L0") => \A j \in F : lock[j] # "held" /\ (lock[j] = "xfer" => ~Owned(j))
HeldHasFrameOrVerify == \A j \in F : lock[j] = "held" => TRUE
=============================================================================
