------------------------------ MODULE Fixpoint ------------------------------
(***************************************************************************)
(* Implementation-shaped model of salsa's fixpoint iteration for one       *)
(* thread and one revision.  One PlusCal label per critical section of     *)
(*   src/function/fetch.rs     fetch_hot, fetch_cold, fetch_cold_cycle     *)
(*   src/function/execute.rs   execute_maybe_iterate, try_complete_query,  *)
(*                             collect_all_cycle_heads, outer_cycle,       *)
(*                             complete_cycle_participant,                 *)
(*                             try_complete_cycle_head                     *)
(*   src/function/maybe_changed_after.rs  validate_provisional,            *)
(*                             validate_same_iteration                     *)
(*   src/function/sync.rs      claim / re-entrant claim of a transferred   *)
(*                             lock / TransferTo(outer) / Default release  *)
(*                                                                         *)
(*  * the provisional value of an executing head lives in the memo table   *)
(*    (fixpoint_initial, then one memo per iteration); a request for a     *)
(*    function whose lock this thread holds returns that memo and makes    *)
(*    the function a cycle head of every frame above it;                   *)
(*  * every memo records, per cycle head, the iteration of the head it was *)
(*    computed in; CycleHeads::insert asserts that a head is never         *)
(*    recorded with two different iterations;                              *)
(*  * a completing body closes its heads transitively over the memos of    *)
(*    its heads (collect_all_cycle_heads); if it does not depend on itself *)
(*    it is a participant: provisional memo, lock transferred to the       *)
(*    outermost head on the stack;                                         *)
(*  * a head that has an outer head does NOT iterate on its own: it stores *)
(*    a provisional memo with cycle_converged and transfers its lock; only *)
(*    the outermost head iterates, until its own value and every nested    *)
(*    head have converged; on iterating it bumps the iteration of itself   *)
(*    and of the nested heads' memos, which invalidates every participant  *)
(*    memo of the previous iteration (validate_same_iteration);            *)
(*  * on convergence the outermost head finalizes itself and the nested    *)
(*    heads; participants are finalized lazily (validate_provisional).     *)
(*                                                                         *)
(* Programs: value(j) = {j} \cup union of the callees' values (monotone),  *)
(* cycle_initial = {} and the default cycle_fn.  The program and the order *)
(* of top-level requests are chosen nondeterministically; TLC checks for   *)
(* ALL of them that every returned value is the least fixpoint (C12),      *)
(* independent of the entry point and of what was requested before (C18),  *)
(* that none of the implementation's assertions can fail, that no lock is  *)
(* left behind, and that iteration terminates (C15: within NF+1 rounds).   *)
(* With Emit every complete behaviour is printed and replayed on salsa     *)
(* (lib/fixmc.py): values and the exact sequence of body executions.       *)
(***************************************************************************)
EXTENDS Integers, Sequences, FiniteSets, TLC, Json

CONSTANTS NF,        \* number of functions
          MaxReq,    \* top-level requests per behaviour
          Emit,      \* print one REPLAY line per complete behaviour (spec -> impl conformance)
          Mut        \* mutation switch for self-tests of the model ("none" = the algorithm as implemented)

F == 1..NF
CallLists == {<<>>} \cup {<<a>> : a \in F} \cup {<<a, b>> : a \in F, b \in F}

\* least fixpoint of  v[j] = {j} \cup UNION v[callees]
RECURSIVE LfpIter(_, _, _)
LfpIter(calls, v, n) ==
    LET v2 == [j \in F |-> {j} \cup UNION {v[calls[j][i]] : i \in 1..Len(calls[j])}] IN
    IF v2 = v \/ n = 0 THEN v ELSE LfpIter(calls, v2, n - 1)
Lfp(calls) == LfpIter(calls, [j \in F |-> {}], NF + 2)

NoHeads == [h \in F |-> -1]
Only(j, it) == [h \in F |-> IF h = j THEN it ELSE -1]
HeadSet(hs) == {h \in F : hs[h] # -1}
NoMemo == [has |-> FALSE, val |-> {}, final |-> FALSE, heads |-> NoHeads, it |-> 0, conv |-> FALSE]
MaxOf(S) == CHOOSE x \in S : \A y \in S : y <= x

(* --algorithm Fixpoint {
variables
    calls \in [F -> CallLists],
    memo = [j \in F |-> NoMemo],
    lock = [j \in F |-> "free"],     \* sync table entry: free | held (Thread) | xfer (Transferred)
    xto = [j \in F |-> 0],           \* transfer target of a transferred lock
    qstack = <<>>,                   \* executing functions, outermost first
    fheads = <<>>,                   \* per frame: ActiveQuery::cycle_heads  (head -> iteration, -1 = absent)
    rv = {}, rh = NoHeads,           \* return registers of Fetch: value and the memo's cycle heads
    nreq = 0, lastreq = 1,
    xlog = <<>>,                     \* history: one entry per body execution in this request
    hist = <<>>,                     \* history: completed requests [f, v, ex]
    bad = {};

define {
    Top == Len(qstack)
    \* the thread owns a transferred lock iff the transfer chain ends in a lock it holds
    RECURSIVE RootHeld(_, _)
    RootHeld(j, n) == IF lock[j] = "held" THEN TRUE
                      ELSE IF lock[j] = "xfer" /\ n > 0 THEN RootHeld(xto[j], n - 1) ELSE FALSE
    Owned(j) == RootHeld(j, NF)
    RECURSIVE ChainHits(_, _, _)
    ChainHits(j, r, n) == IF j = r THEN TRUE
                          ELSE IF lock[j] = "xfer" /\ n > 0 THEN ChainHits(xto[j], r, n - 1) ELSE FALSE
    \* ClaimGuard::release in Default mode: the entry and everything transferred (transitively) to it
    Released(r) == [j \in F |-> IF j = r \/ (lock[j] = "xfer" /\ ChainHits(j, r, NF)) THEN "free" ELSE lock[j]]

    \* validate_provisional: every head is final, in the iteration this memo recorded
    ValidProvisional(m) == \A h \in HeadSet(m.heads) : memo[h].has /\ memo[h].final /\ memo[h].it = m.heads[h]
    \* validate_same_iteration (the memo's own function is not on the stack here)
    SameIteration(j, m) ==
        /\ HeadSet(m.heads) \ {j} # {}
        /\ \A h \in HeadSet(m.heads) : Owned(h) /\ memo[h].has /\ (Mut = "noiter" \/ memo[h].it = m.heads[h])
    \* peek_claim(Deny) == Cycle but no memo: `expect("cycle head memo to exist")`
    HeadMemoMissing(m) == \E h \in HeadSet(m.heads) : Owned(h) /\ ~memo[h].has

    \* collect_all_cycle_heads: transitive closure over the memos of the heads (not through `me`)
    RECURSIVE Clos(_, _, _)
    Clos(me, S0, P) ==
        LET hs == (S0 \cup {p[1] : p \in P}) \ {me}
            P2 == P \cup UNION {{<<hh, memo[h].heads[hh]>> : hh \in HeadSet(memo[h].heads) \ S0} : h \in hs}
        IN IF P2 = P THEN P ELSE Clos(me, S0, P2)
    Followed(me, S0, P) == (S0 \cup {p[1] : p \in P}) \ {me}
    MaxIter(me, S0, P, it) ==
        MaxOf({it} \cup UNION {{memo[h].heads[hh] : hh \in HeadSet(memo[h].heads)} : h \in Followed(me, S0, P)})
    Extend(hs, P) == [h \in F |-> IF hs[h] # -1 THEN hs[h]
                                  ELSE IF \E p \in P : p[1] = h THEN (CHOOSE p \in P : p[1] = h)[2] ELSE -1]
    \* outer_cycle: the outermost frame (other than the completing one) that is among the heads
    OuterIdx(hs, me) == {i \in 1..(Top - 1) : qstack[i] # me /\ hs[qstack[i]] # -1}
    Expected == Lfp(calls)
}

macro AddHeads(newh) {
    \* ActiveQuery::add_read -> CycleHeads::extend -> insert: asserts equal iterations
    if (\E h \in F : newh[h] # -1 /\ fheads[Top][h] # -1 /\ fheads[Top][h] # newh[h]) {
        bad := bad \cup {"HeadIterationAssert"};
    };
    fheads[Top] := [h \in F |-> IF fheads[Top][h] # -1 THEN fheads[Top][h] ELSE newh[h]];
}

procedure Fetch(fq) {
 F0: if (memo[fq].has /\ memo[fq].final) {
        \* fetch_hot
        rv := memo[fq].val; rh := NoHeads;
        return;
     } else if (lock[fq] = "held") {
        \* try_claim == Cycle: fetch_cold_cycle
        if (memo[fq].has /\ memo[fq].heads[fq] # -1) {
            \* last provisional value of a head; remove_all_except(self)
            rv := memo[fq].val; rh := Only(fq, memo[fq].heads[fq]);
            memo[fq].heads := Only(fq, memo[fq].heads[fq]);
        } else {
            \* insert the fixpoint initial value (keeping the iteration of an existing memo)
            rv := {}; rh := Only(fq, IF memo[fq].has THEN memo[fq].it ELSE 0);
            memo[fq] := [has |-> TRUE, val |-> {}, final |-> FALSE, conv |-> FALSE,
                         it |-> IF memo[fq].has THEN memo[fq].it ELSE 0,
                         heads |-> Only(fq, IF memo[fq].has THEN memo[fq].it ELSE 0)];
        };
        return;
     } else if (lock[fq] = "xfer" /\ ~Owned(fq)) {
        \* single thread: a transferred lock whose owner released is reclaimed as if free (Released)
        lock[fq] := "free";
        goto F0;
     } else if (memo[fq].has /\ ValidProvisional(memo[fq])) {
        \* claimed; verify_memo: validate_provisional marks the memo final
        memo[fq].final := TRUE;
        rv := memo[fq].val; rh := NoHeads;
        return;
     } else if (memo[fq].has /\ SameIteration(fq, memo[fq])) {
        \* claimed (possibly re-entrantly, released again with SelfOnly); reuse within the iteration
        rv := memo[fq].val; rh := memo[fq].heads;
        return;
     } else if (memo[fq].has /\ HeadMemoMissing(memo[fq])) {
        bad := bad \cup {"HeadMemoMissing"};
     };
 F1: call Exec(fq);
 F2: return;
}

procedure Exec(eq)
  variables ci = 1; acc = {}; rounds = 0; iteration = 0; lphas = FALSE; lpv = {};
            P = {}; nh = NoHeads; dep = FALSE; cit = 0; last = {};
{
 E0: \* execute_maybe_iterate: claim guard in Default mode; previous_iteration of a memo of this revision
     lock[eq] := "held";
     iteration := IF memo[eq].has THEN memo[eq].it ELSE 0;
     lphas := memo[eq].has /\ memo[eq].heads[eq] # -1;
     lpv := IF memo[eq].has /\ memo[eq].heads[eq] # -1 THEN memo[eq].val ELSE {};
     qstack := Append(qstack, eq);
     fheads := Append(fheads, NoHeads);
 E1: \* one execution of the body
     ci := 1; acc := {eq};
     fheads[Top] := NoHeads;
     xlog := Append(xlog, eq);
 E2: while (ci <= Len(calls[eq])) {
        call Fetch(calls[eq][ci]);
 E3:    acc := acc \cup rv;
        AddHeads(rh);
        ci := ci + 1;
     };
 E4: \* try_complete_query
     if (HeadSet(fheads[Top]) = {}) {
        memo[eq] := [has |-> TRUE, val |-> acc, final |-> TRUE, heads |-> NoHeads, conv |-> FALSE,
                     it |-> IF iteration = 0 THEN 0 ELSE iteration + 1];
        lock := Released(eq);
        rv := acc; rh := NoHeads;
        goto E6;
     } else {
        P := Clos(eq, HeadSet(fheads[Top]), {});
     };
 E5: \* collect_all_cycle_heads, outer_cycle
     if (\E h \in Followed(eq, HeadSet(fheads[Top]), P) : ~memo[h].has \/ memo[h].final) {
        bad := bad \cup {"HeadNotProvisional"};
     } else if (\E p1 \in P, p2 \in P : p1[1] = p2[1] /\ p1[2] # p2[2]) {
        bad := bad \cup {"HeadIterationAssert"};
     };
     nh := Extend(fheads[Top], P);
     dep := eq \in HeadSet(fheads[Top]) \/ (\E p \in P : p[1] = eq);
     cit := MaxIter(eq, HeadSet(fheads[Top]), P, iteration);
 E7: if (~dep) {
        \* complete_cycle_participant
        if (OuterIdx(nh, eq) = {}) {
            bad := bad \cup {"NoOuterCycle"};
            lock := Released(eq);
        } else {
            lock[eq] := "xfer";
            xto[eq] := qstack[CHOOSE i \in OuterIdx(nh, eq) : \A k \in OuterIdx(nh, eq) : i <= k];
        };
        memo[eq] := [has |-> TRUE, val |-> acc, final |-> FALSE, heads |-> nh, conv |-> FALSE, it |-> iteration + 1];
        rv := acc; rh := nh;
     } else {
        \* cycle head: compare with the last provisional value
        if (~lphas /\ ~memo[eq].has) { bad := bad \cup {"NoProvisionalMemo"}; };
        last := IF lphas THEN lpv ELSE memo[eq].val;
 E8:    if (OuterIdx(nh, eq) # {}) {
            \* nested head: iterated as part of the outer cycle
            memo[eq] := [has |-> TRUE, val |-> acc, final |-> FALSE, heads |-> nh, conv |-> (acc = last), it |-> iteration];
            lock[eq] := "xfer";
            xto[eq] := qstack[CHOOSE i \in OuterIdx(nh, eq) : \A k \in OuterIdx(nh, eq) : i <= k];
            rv := acc; rh := nh;
        } else if (acc = last /\ (Mut = "noinner" \/ \A h \in HeadSet(nh) \ {eq} : ~memo[h].has \/ memo[h].conv)) {
            \* outermost head, converged: finalize itself and the nested heads
            memo := [j \in F |->
                      IF j = eq THEN [has |-> TRUE, val |-> acc, final |-> TRUE, heads |-> NoHeads, conv |-> FALSE, it |-> iteration]
                      ELSE IF j \in HeadSet(nh) /\ memo[j].has THEN [memo[j] EXCEPT !.final = TRUE]
                      ELSE memo[j]];
            lock := Released(eq);
            rv := acc; rh := NoHeads;
        } else {
            \* iterate again: bump the iteration of this head and of the nested heads' memos
            memo := [j \in F |->
                      IF j = eq THEN [has |-> TRUE, val |-> acc, final |-> FALSE, conv |-> FALSE, it |-> cit + 1,
                                      heads |-> [nh EXCEPT ![eq] = cit + 1]]
                      ELSE IF j \in HeadSet(nh) /\ memo[j].has /\ Mut # "nobump"
                           THEN [memo[j] EXCEPT !.it = cit + 1,
                                                !.heads = [memo[j].heads EXCEPT ![j] = IF @ # -1 THEN cit + 1 ELSE @]]
                      ELSE memo[j]];
            iteration := cit + 1;
            lphas := TRUE; lpv := acc;
            rounds := rounds + 1;
            if (rounds > NF + 1) { bad := bad \cup {"TooManyIterations"}; goto E6; } else { goto E1; };
        };
     };
 E6: qstack := SubSeq(qstack, 1, Len(qstack) - 1);
     fheads := SubSeq(fheads, 1, Len(fheads) - 1);
     return;
}

{
 L0: while (nreq < MaxReq) {
        with (j \in F) { lastreq := j; call Fetch(j); };
 L1:    \* the returned value is the least fixpoint; nothing is left claimed
        bad := bad \cup (IF rv # Expected[lastreq] THEN {"C12"} ELSE {})
                   \cup (IF qstack # <<>> THEN {"StackLeft"} ELSE {})
                   \cup (IF \E j \in F : lock[j] = "held" \/ (lock[j] = "xfer" /\ Owned(j)) THEN {"LockLeft"} ELSE {});
        nreq := nreq + 1;
        hist := Append(hist, [f |-> lastreq, v |-> rv, ex |-> xlog]);
        xlog := <<>>;
     };
 L2: if (Emit) { print "REPLAY|" \o ToJson([calls |-> calls, h |-> hist]); };
}
} *)
\* BEGIN TRANSLATION
CONSTANT defaultInitValue
VARIABLES pc, calls, memo, lock, xto, qstack, fheads, rv, rh, nreq, lastreq, 
          xlog, hist, bad, stack

(* define statement *)
Top == Len(qstack)

RECURSIVE RootHeld(_, _)
RootHeld(j, n) == IF lock[j] = "held" THEN TRUE
                  ELSE IF lock[j] = "xfer" /\ n > 0 THEN RootHeld(xto[j], n - 1) ELSE FALSE
Owned(j) == RootHeld(j, NF)
RECURSIVE ChainHits(_, _, _)
ChainHits(j, r, n) == IF j = r THEN TRUE
                      ELSE IF lock[j] = "xfer" /\ n > 0 THEN ChainHits(xto[j], r, n - 1) ELSE FALSE

Released(r) == [j \in F |-> IF j = r \/ (lock[j] = "xfer" /\ ChainHits(j, r, NF)) THEN "free" ELSE lock[j]]


ValidProvisional(m) == \A h \in HeadSet(m.heads) : memo[h].has /\ memo[h].final /\ memo[h].it = m.heads[h]

SameIteration(j, m) ==
    /\ HeadSet(m.heads) \ {j} # {}
    /\ \A h \in HeadSet(m.heads) : Owned(h) /\ memo[h].has /\ (Mut = "noiter" \/ memo[h].it = m.heads[h])

HeadMemoMissing(m) == \E h \in HeadSet(m.heads) : Owned(h) /\ ~memo[h].has


RECURSIVE Clos(_, _, _)
Clos(me, S0, P) ==
    LET hs == (S0 \cup {p[1] : p \in P}) \ {me}
        P2 == P \cup UNION {{<<hh, memo[h].heads[hh]>> : hh \in HeadSet(memo[h].heads) \ S0} : h \in hs}
    IN IF P2 = P THEN P ELSE Clos(me, S0, P2)
Followed(me, S0, P) == (S0 \cup {p[1] : p \in P}) \ {me}
MaxIter(me, S0, P, it) ==
    MaxOf({it} \cup UNION {{memo[h].heads[hh] : hh \in HeadSet(memo[h].heads)} : h \in Followed(me, S0, P)})
Extend(hs, P) == [h \in F |-> IF hs[h] # -1 THEN hs[h]
                              ELSE IF \E p \in P : p[1] = h THEN (CHOOSE p \in P : p[1] = h)[2] ELSE -1]

OuterIdx(hs, me) == {i \in 1..(Top - 1) : qstack[i] # me /\ hs[qstack[i]] # -1}
Expected == Lfp(calls)

VARIABLES fq, eq, ci, acc, rounds, iteration, lphas, lpv, P, nh, dep, cit, 
          last

vars == << pc, calls, memo, lock, xto, qstack, fheads, rv, rh, nreq, lastreq, 
           xlog, hist, bad, stack, fq, eq, ci, acc, rounds, iteration, lphas, 
           lpv, P, nh, dep, cit, last >>

Init == (* Global variables *)
        /\ calls \in [F -> CallLists]
        /\ memo = [j \in F |-> NoMemo]
        /\ lock = [j \in F |-> "free"]
        /\ xto = [j \in F |-> 0]
        /\ qstack = <<>>
        /\ fheads = <<>>
        /\ rv = {}
        /\ rh = NoHeads
        /\ nreq = 0
        /\ lastreq = 1
        /\ xlog = <<>>
        /\ hist = <<>>
        /\ bad = {}
        (* Procedure Fetch *)
        /\ fq = defaultInitValue
        (* Procedure Exec *)
        /\ eq = defaultInitValue
        /\ ci = 1
        /\ acc = {}
        /\ rounds = 0
        /\ iteration = 0
        /\ lphas = FALSE
        /\ lpv = {}
        /\ P = {}
        /\ nh = NoHeads
        /\ dep = FALSE
        /\ cit = 0
        /\ last = {}
        /\ stack = << >>
        /\ pc = "L0"

F0 == /\ pc = "F0"
      /\ IF memo[fq].has /\ memo[fq].final
            THEN /\ rv' = memo[fq].val
                 /\ rh' = NoHeads
                 /\ pc' = Head(stack).pc
                 /\ fq' = Head(stack).fq
                 /\ stack' = Tail(stack)
                 /\ UNCHANGED << memo, lock, bad >>
            ELSE /\ IF lock[fq] = "held"
                       THEN /\ IF memo[fq].has /\ memo[fq].heads[fq] # -1
                                  THEN /\ rv' = memo[fq].val
                                       /\ rh' = Only(fq, memo[fq].heads[fq])
                                       /\ memo' = [memo EXCEPT ![fq].heads = Only(fq, memo[fq].heads[fq])]
                                  ELSE /\ rv' = {}
                                       /\ rh' = Only(fq, IF memo[fq].has THEN memo[fq].it ELSE 0)
                                       /\ memo' = [memo EXCEPT ![fq] = [has |-> TRUE, val |-> {}, final |-> FALSE, conv |-> FALSE,
                                                                        it |-> IF memo[fq].has THEN memo[fq].it ELSE 0,
                                                                        heads |-> Only(fq, IF memo[fq].has THEN memo[fq].it ELSE 0)]]
                            /\ pc' = Head(stack).pc
                            /\ fq' = Head(stack).fq
                            /\ stack' = Tail(stack)
                            /\ UNCHANGED << lock, bad >>
                       ELSE /\ IF lock[fq] = "xfer" /\ ~Owned(fq)
                                  THEN /\ lock' = [lock EXCEPT ![fq] = "free"]
                                       /\ pc' = "F0"
                                       /\ UNCHANGED << memo, rv, rh, bad, 
                                                       stack, fq >>
                                  ELSE /\ IF memo[fq].has /\ ValidProvisional(memo[fq])
                                             THEN /\ memo' = [memo EXCEPT ![fq].final = TRUE]
                                                  /\ rv' = memo'[fq].val
                                                  /\ rh' = NoHeads
                                                  /\ pc' = Head(stack).pc
                                                  /\ fq' = Head(stack).fq
                                                  /\ stack' = Tail(stack)
                                                  /\ bad' = bad
                                             ELSE /\ IF memo[fq].has /\ SameIteration(fq, memo[fq])
                                                        THEN /\ rv' = memo[fq].val
                                                             /\ rh' = memo[fq].heads
                                                             /\ pc' = Head(stack).pc
                                                             /\ fq' = Head(stack).fq
                                                             /\ stack' = Tail(stack)
                                                             /\ bad' = bad
                                                        ELSE /\ IF memo[fq].has /\ HeadMemoMissing(memo[fq])
                                                                   THEN /\ bad' = (bad \cup {"HeadMemoMissing"})
                                                                   ELSE /\ TRUE
                                                                        /\ bad' = bad
                                                             /\ pc' = "F1"
                                                             /\ UNCHANGED << rv, 
                                                                             rh, 
                                                                             stack, 
                                                                             fq >>
                                                  /\ memo' = memo
                                       /\ lock' = lock
      /\ UNCHANGED << calls, xto, qstack, fheads, nreq, lastreq, xlog, hist, 
                      eq, ci, acc, rounds, iteration, lphas, lpv, P, nh, dep, 
                      cit, last >>

F1 == /\ pc = "F1"
      /\ /\ eq' = fq
         /\ stack' = << [ procedure |->  "Exec",
                          pc        |->  "F2",
                          ci        |->  ci,
                          acc       |->  acc,
                          rounds    |->  rounds,
                          iteration |->  iteration,
                          lphas     |->  lphas,
                          lpv       |->  lpv,
                          P         |->  P,
                          nh        |->  nh,
                          dep       |->  dep,
                          cit       |->  cit,
                          last      |->  last,
                          eq        |->  eq ] >>
                      \o stack
      /\ ci' = 1
      /\ acc' = {}
      /\ rounds' = 0
      /\ iteration' = 0
      /\ lphas' = FALSE
      /\ lpv' = {}
      /\ P' = {}
      /\ nh' = NoHeads
      /\ dep' = FALSE
      /\ cit' = 0
      /\ last' = {}
      /\ pc' = "E0"
      /\ UNCHANGED << calls, memo, lock, xto, qstack, fheads, rv, rh, nreq, 
                      lastreq, xlog, hist, bad, fq >>

F2 == /\ pc = "F2"
      /\ pc' = Head(stack).pc
      /\ fq' = Head(stack).fq
      /\ stack' = Tail(stack)
      /\ UNCHANGED << calls, memo, lock, xto, qstack, fheads, rv, rh, nreq, 
                      lastreq, xlog, hist, bad, eq, ci, acc, rounds, iteration, 
                      lphas, lpv, P, nh, dep, cit, last >>

Fetch == F0 \/ F1 \/ F2

E0 == /\ pc = "E0"
      /\ lock' = [lock EXCEPT ![eq] = "held"]
      /\ iteration' = IF memo[eq].has THEN memo[eq].it ELSE 0
      /\ lphas' = (memo[eq].has /\ memo[eq].heads[eq] # -1)
      /\ lpv' = (IF memo[eq].has /\ memo[eq].heads[eq] # -1 THEN memo[eq].val ELSE {})
      /\ qstack' = Append(qstack, eq)
      /\ fheads' = Append(fheads, NoHeads)
      /\ pc' = "E1"
      /\ UNCHANGED << calls, memo, xto, rv, rh, nreq, lastreq, xlog, hist, bad, 
                      stack, fq, eq, ci, acc, rounds, P, nh, dep, cit, last >>

E1 == /\ pc = "E1"
      /\ ci' = 1
      /\ acc' = {eq}
      /\ fheads' = [fheads EXCEPT ![Top] = NoHeads]
      /\ xlog' = Append(xlog, eq)
      /\ pc' = "E2"
      /\ UNCHANGED << calls, memo, lock, xto, qstack, rv, rh, nreq, lastreq, 
                      hist, bad, stack, fq, eq, rounds, iteration, lphas, lpv, 
                      P, nh, dep, cit, last >>

E2 == /\ pc = "E2"
      /\ IF ci <= Len(calls[eq])
            THEN /\ /\ fq' = calls[eq][ci]
                    /\ stack' = << [ procedure |->  "Fetch",
                                     pc        |->  "E3",
                                     fq        |->  fq ] >>
                                 \o stack
                 /\ pc' = "F0"
            ELSE /\ pc' = "E4"
                 /\ UNCHANGED << stack, fq >>
      /\ UNCHANGED << calls, memo, lock, xto, qstack, fheads, rv, rh, nreq, 
                      lastreq, xlog, hist, bad, eq, ci, acc, rounds, iteration, 
                      lphas, lpv, P, nh, dep, cit, last >>

E3 == /\ pc = "E3"
      /\ acc' = (acc \cup rv)
      /\ IF \E h \in F : rh[h] # -1 /\ fheads[Top][h] # -1 /\ fheads[Top][h] # rh[h]
            THEN /\ bad' = (bad \cup {"HeadIterationAssert"})
            ELSE /\ TRUE
                 /\ bad' = bad
      /\ fheads' = [fheads EXCEPT ![Top] = [h \in F |-> IF fheads[Top][h] # -1 THEN fheads[Top][h] ELSE rh[h]]]
      /\ ci' = ci + 1
      /\ pc' = "E2"
      /\ UNCHANGED << calls, memo, lock, xto, qstack, rv, rh, nreq, lastreq, 
                      xlog, hist, stack, fq, eq, rounds, iteration, lphas, lpv, 
                      P, nh, dep, cit, last >>

E4 == /\ pc = "E4"
      /\ IF HeadSet(fheads[Top]) = {}
            THEN /\ memo' = [memo EXCEPT ![eq] = [has |-> TRUE, val |-> acc, final |-> TRUE, heads |-> NoHeads, conv |-> FALSE,
                                                  it |-> IF iteration = 0 THEN 0 ELSE iteration + 1]]
                 /\ lock' = Released(eq)
                 /\ rv' = acc
                 /\ rh' = NoHeads
                 /\ pc' = "E6"
                 /\ P' = P
            ELSE /\ P' = Clos(eq, HeadSet(fheads[Top]), {})
                 /\ pc' = "E5"
                 /\ UNCHANGED << memo, lock, rv, rh >>
      /\ UNCHANGED << calls, xto, qstack, fheads, nreq, lastreq, xlog, hist, 
                      bad, stack, fq, eq, ci, acc, rounds, iteration, lphas, 
                      lpv, nh, dep, cit, last >>

E5 == /\ pc = "E5"
      /\ IF \E h \in Followed(eq, HeadSet(fheads[Top]), P) : ~memo[h].has \/ memo[h].final
            THEN /\ bad' = (bad \cup {"HeadNotProvisional"})
            ELSE /\ IF \E p1 \in P, p2 \in P : p1[1] = p2[1] /\ p1[2] # p2[2]
                       THEN /\ bad' = (bad \cup {"HeadIterationAssert"})
                       ELSE /\ TRUE
                            /\ bad' = bad
      /\ nh' = Extend(fheads[Top], P)
      /\ dep' = (eq \in HeadSet(fheads[Top]) \/ (\E p \in P : p[1] = eq))
      /\ cit' = MaxIter(eq, HeadSet(fheads[Top]), P, iteration)
      /\ pc' = "E7"
      /\ UNCHANGED << calls, memo, lock, xto, qstack, fheads, rv, rh, nreq, 
                      lastreq, xlog, hist, stack, fq, eq, ci, acc, rounds, 
                      iteration, lphas, lpv, P, last >>

E7 == /\ pc = "E7"
      /\ IF ~dep
            THEN /\ IF OuterIdx(nh, eq) = {}
                       THEN /\ bad' = (bad \cup {"NoOuterCycle"})
                            /\ lock' = Released(eq)
                            /\ xto' = xto
                       ELSE /\ lock' = [lock EXCEPT ![eq] = "xfer"]
                            /\ xto' = [xto EXCEPT ![eq] = qstack[CHOOSE i \in OuterIdx(nh, eq) : \A k \in OuterIdx(nh, eq) : i <= k]]
                            /\ bad' = bad
                 /\ memo' = [memo EXCEPT ![eq] = [has |-> TRUE, val |-> acc, final |-> FALSE, heads |-> nh, conv |-> FALSE, it |-> iteration + 1]]
                 /\ rv' = acc
                 /\ rh' = nh
                 /\ pc' = "E6"
                 /\ last' = last
            ELSE /\ IF ~lphas /\ ~memo[eq].has
                       THEN /\ bad' = (bad \cup {"NoProvisionalMemo"})
                       ELSE /\ TRUE
                            /\ bad' = bad
                 /\ last' = IF lphas THEN lpv ELSE memo[eq].val
                 /\ pc' = "E8"
                 /\ UNCHANGED << memo, lock, xto, rv, rh >>
      /\ UNCHANGED << calls, qstack, fheads, nreq, lastreq, xlog, hist, stack, 
                      fq, eq, ci, acc, rounds, iteration, lphas, lpv, P, nh, 
                      dep, cit >>

E8 == /\ pc = "E8"
      /\ IF OuterIdx(nh, eq) # {}
            THEN /\ memo' = [memo EXCEPT ![eq] = [has |-> TRUE, val |-> acc, final |-> FALSE, heads |-> nh, conv |-> (acc = last), it |-> iteration]]
                 /\ lock' = [lock EXCEPT ![eq] = "xfer"]
                 /\ xto' = [xto EXCEPT ![eq] = qstack[CHOOSE i \in OuterIdx(nh, eq) : \A k \in OuterIdx(nh, eq) : i <= k]]
                 /\ rv' = acc
                 /\ rh' = nh
                 /\ pc' = "E6"
                 /\ UNCHANGED << bad, rounds, iteration, lphas, lpv >>
            ELSE /\ IF acc = last /\ (Mut = "noinner" \/ \A h \in HeadSet(nh) \ {eq} : ~memo[h].has \/ memo[h].conv)
                       THEN /\ memo' = [j \in F |->
                                         IF j = eq THEN [has |-> TRUE, val |-> acc, final |-> TRUE, heads |-> NoHeads, conv |-> FALSE, it |-> iteration]
                                         ELSE IF j \in HeadSet(nh) /\ memo[j].has THEN [memo[j] EXCEPT !.final = TRUE]
                                         ELSE memo[j]]
                            /\ lock' = Released(eq)
                            /\ rv' = acc
                            /\ rh' = NoHeads
                            /\ pc' = "E6"
                            /\ UNCHANGED << bad, rounds, iteration, lphas, lpv >>
                       ELSE /\ memo' = [j \in F |->
                                         IF j = eq THEN [has |-> TRUE, val |-> acc, final |-> FALSE, conv |-> FALSE, it |-> cit + 1,
                                                         heads |-> [nh EXCEPT ![eq] = cit + 1]]
                                         ELSE IF j \in HeadSet(nh) /\ memo[j].has /\ Mut # "nobump"
                                              THEN [memo[j] EXCEPT !.it = cit + 1,
                                                                   !.heads = [memo[j].heads EXCEPT ![j] = IF @ # -1 THEN cit + 1 ELSE @]]
                                         ELSE memo[j]]
                            /\ iteration' = cit + 1
                            /\ lphas' = TRUE
                            /\ lpv' = acc
                            /\ rounds' = rounds + 1
                            /\ IF rounds' > NF + 1
                                  THEN /\ bad' = (bad \cup {"TooManyIterations"})
                                       /\ pc' = "E6"
                                  ELSE /\ pc' = "E1"
                                       /\ bad' = bad
                            /\ UNCHANGED << lock, rv, rh >>
                 /\ xto' = xto
      /\ UNCHANGED << calls, qstack, fheads, nreq, lastreq, xlog, hist, stack, 
                      fq, eq, ci, acc, P, nh, dep, cit, last >>

E6 == /\ pc = "E6"
      /\ qstack' = SubSeq(qstack, 1, Len(qstack) - 1)
      /\ fheads' = SubSeq(fheads, 1, Len(fheads) - 1)
      /\ pc' = Head(stack).pc
      /\ ci' = Head(stack).ci
      /\ acc' = Head(stack).acc
      /\ rounds' = Head(stack).rounds
      /\ iteration' = Head(stack).iteration
      /\ lphas' = Head(stack).lphas
      /\ lpv' = Head(stack).lpv
      /\ P' = Head(stack).P
      /\ nh' = Head(stack).nh
      /\ dep' = Head(stack).dep
      /\ cit' = Head(stack).cit
      /\ last' = Head(stack).last
      /\ eq' = Head(stack).eq
      /\ stack' = Tail(stack)
      /\ UNCHANGED << calls, memo, lock, xto, rv, rh, nreq, lastreq, xlog, 
                      hist, bad, fq >>

Exec == E0 \/ E1 \/ E2 \/ E3 \/ E4 \/ E5 \/ E7 \/ E8 \/ E6

L0 == /\ pc = "L0"
      /\ IF nreq < MaxReq
            THEN /\ \E j \in F:
                      /\ lastreq' = j
                      /\ /\ fq' = j
                         /\ stack' = << [ procedure |->  "Fetch",
                                          pc        |->  "L1",
                                          fq        |->  fq ] >>
                                      \o stack
                      /\ pc' = "F0"
            ELSE /\ pc' = "L2"
                 /\ UNCHANGED << lastreq, stack, fq >>
      /\ UNCHANGED << calls, memo, lock, xto, qstack, fheads, rv, rh, nreq, 
                      xlog, hist, bad, eq, ci, acc, rounds, iteration, lphas, 
                      lpv, P, nh, dep, cit, last >>

L1 == /\ pc = "L1"
      /\ bad' = (bad \cup (IF rv # Expected[lastreq] THEN {"C12"} ELSE {})
                     \cup (IF qstack # <<>> THEN {"StackLeft"} ELSE {})
                     \cup (IF \E j \in F : lock[j] = "held" \/ (lock[j] = "xfer" /\ Owned(j)) THEN {"LockLeft"} ELSE {}))
      /\ nreq' = nreq + 1
      /\ hist' = Append(hist, [f |-> lastreq, v |-> rv, ex |-> xlog])
      /\ xlog' = <<>>
      /\ pc' = "L0"
      /\ UNCHANGED << calls, memo, lock, xto, qstack, fheads, rv, rh, lastreq, 
                      stack, fq, eq, ci, acc, rounds, iteration, lphas, lpv, P, 
                      nh, dep, cit, last >>

L2 == /\ pc = "L2"
      /\ IF Emit
            THEN /\ PrintT("REPLAY|" \o ToJson([calls |-> calls, h |-> hist]))
            ELSE /\ TRUE
      /\ pc' = "Done"
      /\ UNCHANGED << calls, memo, lock, xto, qstack, fheads, rv, rh, nreq, 
                      lastreq, xlog, hist, bad, stack, fq, eq, ci, acc, rounds, 
                      iteration, lphas, lpv, P, nh, dep, cit, last >>

(* Allow infinite stuttering to prevent deadlock on termination. *)
Terminating == pc = "Done" /\ UNCHANGED vars

Next == Fetch \/ Exec \/ L0 \/ L1 \/ L2
           \/ Terminating

Spec == Init /\ [][Next]_vars

Termination == <>(pc = "Done")

\* END TRANSLATION
=============================================================================
