----------------------------- MODULE MC_CoreGen -----------------------------
(* Model-checking harness for CoreGen: invariants, VIEW (hides history variables) and the   *)
(* emission of replayable histories (spec -> implementation direction).                      *)
EXTENDS CoreGen

NoViol == viol = {}

\* design lemmas
LcMonotone == lc[1] >= lc[2] /\ lc[1] <= rev
MemoStamps == \A j \in 1..NF : memo[j].has => (memo[j].ca <= memo[j].ver /\ memo[j].ver <= rev)
\* shallow verification is sound: whatever would pass it holds the from-scratch value
ShallowSound ==
    \A j \in 1..NF :
        (memo[j].has /\ memo[j].valp /\ ShallowOk(memo[j])) =>
            LET s == EvalFn(P, SNow, j) IN s.err # "" \/ s.v = memo[j].val
\* salsa's stamps never claim a change later than the semantic one
StampBelowSem == \A j \in 1..NF : (memo[j].has /\ bk[j].had) => memo[j].ca <= Max2(bk[j].semCh, 1)

View == <<pi, rev, lc, inp, cell, memo, order, cap, frames, rv, okv, chg, nops, nwrites, bk,
          pc, stack, fq, dq, di, mq, mr, eq, en, viol>>

EmitInv == (Emit /\ nops = MaxOps /\ pc = "Done") =>
              PrintT("REPLAY|" \o ToJson([p |-> pi, h |-> hist]))
=============================================================================
