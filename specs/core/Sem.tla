-------------------------------- MODULE Sem --------------------------------
(***************************************************************************)
(* Reference ("from scratch") semantics of harness programs.               *)
(*                                                                         *)
(* A program P is data (see harness/src/types.rs): P.fns[j].nodes[n] is a  *)
(* record [op, a, b, c, kids]; a body is a decision tree whose path        *)
(* encodes every value it has read.  The semantic state S is               *)
(*   [inp  |-> <<<<va, vb>>, ...>>   current value of every input field    *)
(*    cell |-> <<c1, ...>>]          current value of every untracked cell *)
(* Everything here is a constant-level (stateless) operator; the trace     *)
(* monitors and the generative engine model share it.                      *)
(***************************************************************************)
EXTENDS Integers, Sequences, FiniteSets, Bitwise, TLC

NoTab(P) == [j \in 1..Len(P.fns) |-> -1]

\* result of evaluating one function body
Res(v, ss, acc, cs, err) == [v |-> v, ss |-> ss, is |-> <<>>, acc |-> acc, cs |-> cs, err |-> err]
ErrRes(e) == Res(-1, <<>>, <<>>, <<>>, e)

\* abstract tracked struct: identity field, tracked fields, value specified for qspec
\* (-1: none), cf: qspec was computed by the creator before any specify
SRec(i, x, y) == [ident |-> i, x |-> x, y |-> y, sp |-> -1, cf |-> FALSE]

St0(hs, is) == [n |-> 1, hs |-> hs, own |-> <<>>, is |-> is, iown |-> <<>>, r |-> 0,
                acc |-> <<>>, cs |-> <<>>]

Kid(nd, v) == nd.kids[IF v + 1 > Len(nd.kids) THEN Len(nd.kids)
                      ELSE IF v < 0 THEN 1 ELSE v + 1]

InSeq(x, s) == \E i \in 1..Len(s) : s[i] = x

RECURSIVE Run(_, _, _, _, _, _)
RECURSIVE CallFn(_, _, _, _, _)
RECURSIVE SfnRes(_, _, _, _, _, _)

(* Call of Node-keyed function g from a body: tab[g] >= 0 cuts the recursion (used by the  *)
(* fixpoint semantics); g on the stack is a dependency cycle.                              *)
CallFn(P, S, tab, vis, g) ==
    IF tab[g] = -7 THEN ErrRes("diverge")
    ELSE IF tab[g] >= 0 THEN Res(tab[g], <<>>, <<>>, <<>>, "")
    ELSE IF g \in vis THEN ErrRes("cycle")
    ELSE Run(P, S, tab, vis \cup {g}, P.fns[g], St0(<<>>, <<>>))

(* Struct-keyed function family m on struct record sr.  Family 3 is the specifiable one.   *)
SfnRes(P, S, tab, vis, m, sr) ==
    IF m = 3 /\ sr.sp >= 0 THEN Res(sr.sp, <<>>, <<>>, <<>>, "")
    ELSE Run(P, S, tab, vis, P.sfns[m], St0(<<sr>>, <<>>))

Run(P, S, tab, vis, def, st) ==
    LET nd == def.nodes[st.n]
        fwd == "fwd" \in DOMAIN def /\ def.fwd # 0 /\ def.kind \notin {"splain", "sspec", "iplain"}
        Out(v) == IF fwd
                  THEN [Res(v, st.hs, st.acc, st.cs, "") EXCEPT !.is = st.is]
                  ELSE [Res(v, [i \in 1..Len(st.own) |-> st.hs[st.own[i]]], st.acc, st.cs, "")
                           EXCEPT !.is = [i \in 1..Len(st.iown) |-> st.is[st.iown[i]]]]
        Go(s2) == Run(P, S, tab, vis, def, s2)
        Next(v) == Go([st EXCEPT !.n = Kid(nd, v)])
    IN
    CASE nd.op = "ret"  -> Out(nd.a)
      [] nd.op = "retr" -> Out(st.r)
      [] nd.op = "in"   -> Next(S.inp[nd.a][nd.b])
      [] nd.op = "cell" -> Next(S.cell[nd.a])
      [] nd.op \in {"untr", "rv"} -> Next(0)
      [] nd.op = "orc"  -> Go([st EXCEPT !.n = Kid(nd, 0), !.r = st.r | nd.a])
      [] nd.op \in {"call", "orcall"} ->
            LET cr == CallFn(P, S, tab, vis, nd.a) IN
            IF cr.err # "" THEN ErrRes(cr.err)
            ELSE IF nd.op = "call"
                 THEN Go([st EXCEPT !.n = Kid(nd, cr.v), !.hs = st.hs \o cr.ss,
                                    !.is = st.is \o cr.is,
                                    !.cs = Append(st.cs, nd.a)])
                 ELSE Go([st EXCEPT !.n = Kid(nd, 0), !.hs = st.hs \o cr.ss,
                                    !.is = st.is \o cr.is,
                                    !.cs = Append(st.cs, nd.a),
                                    !.r = st.r | (cr.v & nd.b)])
      [] nd.op = "new"  ->
            Go([st EXCEPT !.n = Kid(nd, 0),
                          !.hs = Append(st.hs, SRec(nd.a, nd.b, nd.c)),
                          !.own = Append(st.own, Len(st.hs) + 1)])
      [] nd.op = "fld"  ->
            IF nd.a < 1 \/ nd.a > Len(st.hs) THEN Next(0)
            ELSE LET sr == st.hs[nd.a] IN
                 Next(IF nd.b = 0 THEN sr.ident ELSE IF nd.b = 1 THEN sr.x ELSE sr.y)
      [] nd.op = "calls" ->
            IF nd.b < 1 \/ nd.b > Len(st.hs) THEN Next(0)
            ELSE LET sr == st.hs[nd.b]
                     cr == SfnRes(P, S, tab, vis, nd.a, sr)
                     mark == nd.a = 3 /\ sr.sp < 0 /\ InSeq(nd.b, st.own) IN
                 IF cr.err # "" THEN ErrRes(cr.err)
                 ELSE Go([st EXCEPT !.n = Kid(nd, cr.v),
                                    !.hs[nd.b].cf = IF mark THEN TRUE ELSE sr.cf])
      [] nd.op = "spec" ->
            IF nd.a < 1 \/ nd.a > Len(st.hs) THEN Next(0)
            ELSE LET sr == st.hs[nd.a] IN
                 IF ~InSeq(nd.a, st.own) THEN ErrRes("specforeign")
                 ELSE IF sr.sp >= 0 THEN ErrRes("spectwice")
                 ELSE IF sr.cf THEN Next(0)
                 ELSE Go([st EXCEPT !.n = Kid(nd, 0), !.hs[nd.a].sp = nd.b])
      [] nd.op = "intern" ->
            Go([st EXCEPT !.n = Kid(nd, 0), !.is = Append(st.is, [kind |-> nd.a, v |-> nd.b]),
                          !.iown = Append(st.iown, Len(st.is) + 1)])
      [] nd.op = "rdint" ->
            IF nd.a < 1 \/ nd.a > Len(st.is) THEN Next(0) ELSE Next(st.is[nd.a].v)
      [] nd.op = "calli" ->
            IF nd.a < 1 \/ nd.a > Len(st.is) THEN Next(0)
            ELSE LET cr == Run(P, S, tab, vis, P.ifns[1], St0(<<>>, <<st.is[nd.a]>>)) IN
                 IF cr.err # "" THEN ErrRes(cr.err) ELSE Next(cr.v)
      [] nd.op = "acc"  -> Go([st EXCEPT !.n = Kid(nd, 0), !.acc = Append(st.acc, nd.a)])
      [] OTHER -> ErrRes("badop")

(* From-scratch result of Node-keyed function j (acyclic semantics; "cycle" error if it    *)
(* re-enters itself).                                                                      *)
EvalFn(P, S, j) == CallFn(P, S, NoTab(P), {}, j)

SemTable(P, S) == [j \in 1..Len(P.fns) |-> EvalFn(P, S, j)]

(***************************************************************************)
(* Fixpoint semantics (C12): Kleene iteration from the initial values over *)
(* all functions of a fixpoint kind; other functions are evaluated         *)
(* recursively on top of the current table.                                *)
(***************************************************************************)
IsFix(P, j) == P.fns[j].kind \in {"fix", "fixjoin"}
IsFb(P, j)  == P.fns[j].kind = "fb"

FixStep(P, S, T) ==
    [j \in 1..Len(P.fns) |->
        IF IsFix(P, j)
        THEN LET r == Run(P, S, [T EXCEPT ![j] = T[j]], {}, P.fns[j], St0(<<>>, <<>>)) IN
             IF r.err # "" THEN T[j]
             ELSE IF P.fns[j].kind = "fixjoin" THEN T[j] | r.v ELSE r.v
        ELSE -1]

RECURSIVE FixIter(_, _, _, _)
FixIter(P, S, T, n) ==
    LET T2 == FixStep(P, S, T) IN
    IF T2 = T \/ n = 0 THEN [tab |-> T, stable |-> T2 = T] ELSE FixIter(P, S, T2, n - 1)

FixInit(P) == [j \in 1..Len(P.fns) |-> IF IsFix(P, j) THEN P.fns[j].init ELSE -1]

Lfp(P, S) == FixIter(P, S, FixInit(P), 64)

(* Functions whose fixpoint iteration never stabilises (C15), closed under "calls one".     *)
RECURSIVE DivClose(_, _, _, _)
DivClose(P, S, tab, n) ==
    LET more == {j \in 1..Len(P.fns) :
                    /\ IsFix(P, j) /\ tab[j] # -7
                    /\ Run(P, S, tab, {}, P.fns[j], St0(<<>>, <<>>)).err = "diverge"}
    IN IF more = {} \/ n = 0 THEN tab
       ELSE DivClose(P, S, [j \in 1..Len(P.fns) |-> IF j \in more THEN -7 ELSE tab[j]], n - 1)

(* Programs that mix functions with and without cycle handling (chain bodies: the calls of a *)
(* body do not depend on values).  A request panics with a cycle error iff its depth-first  *)
(* evaluation re-enters a function WITHOUT cycle handling that is still executing; a        *)
(* function with cycle handling that is re-entered yields its provisional value, completed  *)
(* functions are not entered again.                                                         *)
ZeroTabS(P) == [j \in 1..Len(P.fns) |-> 0]
CalleesOf(P, S, g) == Run(P, S, ZeroTabS(P), {}, P.fns[g], St0(<<>>, <<>>)).cs
HasRecovery(P, g) == P.fns[g].kind \in {"fix", "fixjoin", "fb"}

RECURSIVE SimCall(_, _, _, _, _)
RECURSIVE SimSeq(_, _, _, _, _)
SimCall(P, S, g, stack, st) ==
    IF st.panic \/ g \in st.done THEN st
    ELSE IF InSeq(g, stack) THEN (IF HasRecovery(P, g) THEN st ELSE [st EXCEPT !.panic = TRUE])
    ELSE LET st2 == SimSeq(P, S, CalleesOf(P, S, g), Append(stack, g), st) IN
         IF st2.panic THEN st2 ELSE [st2 EXCEPT !.done = st2.done \cup {g}]
SimSeq(P, S, cs, stack, st) ==
    IF cs = <<>> \/ st.panic THEN st
    ELSE SimSeq(P, S, Tail(cs), stack, SimCall(P, S, Head(cs), stack, st))
CycPanic(P, S, e) == SimCall(P, S, e, <<>>, [panic |-> FALSE, done |-> {}]).panic
IsMixed(P) == (\E j \in 1..Len(P.fns) : HasRecovery(P, j)) /\ (\E j \in 1..Len(P.fns) : ~HasRecovery(P, j))

(* Table of results when cyclic functions are resolved by fixpoint iteration (C12, C15).    *)
(* err = "maycycle": the request has the given value, but starting from this key a function *)
(* without cycle handling is re-entered, so a cycle panic is the outcome unless memoized    *)
(* results of earlier requests cut the evaluation short (C14).                              *)
SemTableFix(P, S) ==
    LET L == Lfp(P, S)
        T2 == FixStep(P, S, L.tab)
        tab0 == [j \in 1..Len(P.fns) |-> IF IsFix(P, j) /\ T2[j] # L.tab[j] THEN -7 ELSE L.tab[j]]
        tab == IF L.stable THEN L.tab ELSE DivClose(P, S, tab0, Len(P.fns))
        base == [j \in 1..Len(P.fns) |->
                    IF IsFix(P, j)
                    THEN (IF tab[j] = -7 THEN ErrRes("diverge")
                          ELSE LET r == Run(P, S, tab, {}, P.fns[j], St0(<<>>, <<>>)) IN
                               IF r.err = "cycle" THEN ErrRes("cycle") ELSE Res(tab[j], <<>>, <<>>, <<>>, ""))
                    ELSE CallFn(P, S, tab, {}, j)]
    IN
    [j \in 1..Len(P.fns) |->
        IF IsMixed(P) /\ base[j].err = "" /\ CycPanic(P, S, j) THEN [base[j] EXCEPT !.err = "maycycle"]
        ELSE IF IsMixed(P) /\ base[j].err = "diverge" /\ CycPanic(P, S, j) THEN [base[j] EXCEPT !.err = "divcycle"]
        ELSE base[j]]

(***************************************************************************)
(* Fallback cycles (C13).  The call graph is determined by the inputs      *)
(* (bodies of these families only call through `orcall`, whose reachability*)
(* depends on input reads alone).  A function of kind "fb" that lies on a   *)
(* cycle of that graph returns its fallback value; everything else is      *)
(* evaluated on top of those values.                                       *)
(***************************************************************************)
ZeroTab(P) == [j \in 1..Len(P.fns) |-> 0]
CallEdges(P, S, j) ==
    LET r == Run(P, S, ZeroTab(P), {}, P.fns[j], St0(<<>>, <<>>)) IN {r.cs[i] : i \in 1..Len(r.cs)}

RECURSIVE ReachFrom(_, _, _, _)
ReachFrom(P, S, front, seen) ==
    LET nxt == UNION {CallEdges(P, S, j) : j \in front} \ seen IN
    IF nxt = {} THEN seen ELSE ReachFrom(P, S, nxt, seen \cup nxt)

OnCycle(P, S, j) == LET e == CallEdges(P, S, j) IN j \in ReachFrom(P, S, e, e)

FbTab(P, S) == [j \in 1..Len(P.fns) |-> IF IsFb(P, j) /\ OnCycle(P, S, j) THEN P.fns[j].init ELSE -1]

SemTableFb(P, S) ==
    LET tab == FbTab(P, S) IN
    [j \in 1..Len(P.fns) |->
        IF tab[j] >= 0 THEN Res(tab[j], <<>>, <<>>, <<>>, "") ELSE CallFn(P, S, tab, {}, j)]

(***************************************************************************)
(* Accumulated values (C11): depth-first over call edges in first-call     *)
(* order, every function once, a function's own values before those of the *)
(* functions it calls.                                                     *)
(***************************************************************************)
RECURSIVE AccDfs(_, _, _)
\* todo: sequence of fn indices still to visit (stack, top first); seen: set; out: values
AccDfs(tabl, todo, so) ==
    IF todo = <<>> THEN so.out
    ELSE LET j == Head(todo) rest == Tail(todo) IN
         IF j \in so.seen THEN AccDfs(tabl, rest, so)
         ELSE AccDfs(tabl, tabl[j].cs \o rest,
                     [seen |-> so.seen \cup {j}, out |-> so.out \o tabl[j].acc])

AccumRef(tabl, j) == AccDfs(tabl, <<j>>, [seen |-> {}, out |-> <<>>])

=============================================================================
