------------------------------ MODULE CoreTrace ------------------------------
(***************************************************************************)
(* Monitor ("trace specification") for traces recorded by the sequential   *)
(* driver from the real salsa.  One action per event kind; every action    *)
(* applies the bookkeeping for that event unconditionally, and evaluates   *)
(* the property predicates that the event is subject to.  A false          *)
(* predicate is reported as  <<"VIOL", property, line, detail>>  and the   *)
(* monitor keeps going, so the rest of the trace is still examined.        *)
(*                                                                         *)
(* All predicates are *semantic*: they are computed from logged values,    *)
(* the program and the reference semantics (Sem), never from a model of    *)
(* salsa's own decisions.                                                  *)
(***************************************************************************)
EXTENDS Sem, Json, IOUtils, SequencesExt

Rec == ndJsonDeserialize(IOEnv.TRACE)
N == Len(Rec)

VARIABLES l, P, st
vars == <<l, P, st>>

Viol(id, detail) == PrintT("VIOL|" \o id \o "|" \o ToString(l) \o "|" \o ToString(detail))
Check(id, ok, detail) == IF ok THEN TRUE ELSE Viol(id, detail)

Min2(a, b) == IF a < b THEN a ELSE b
Max2(a, b) == IF a > b THEN a ELSE b

---------------------------------------------------------------------------
\* state construction

HasCyc(p) == \E j \in 1..Len(p.fns) : p.fns[j].kind \in {"fix", "fixjoin", "fb"}

HasFix(p) == \E j \in 1..Len(p.fns) : p.fns[j].kind \in {"fix", "fixjoin"}
HasFb(p) == \E j \in 1..Len(p.fns) : p.fns[j].kind = "fb"
SemOf(p, s) == IF HasFix(p) THEN SemTableFix(p, s) ELSE IF HasFb(p) THEN SemTableFb(p, s) ELSE SemTable(p, s)
\* properties that a wrong result is charged to: C01 always; the property whose mechanism the family of
\* the history exercises as well (a stale result in a durability history is a C02 violation, ...)
FamProp(m) ==
    CASE m \in {"dur", "mc-dur", "structdur"} -> {"C02"}
      [] m \in {"untracked", "mc-untracked"} -> {"C04"}
      [] m \in {"lru", "mc-lru"} -> {"C05"}
      [] m \in {"churn", "reclaim"} -> {"C07"}
      [] m = "mc-intern" -> {"C07", "C08", "C09"}
      [] m = "spec" -> {"C10"}
      [] m \in {"pcycle", "pcyclefix"} -> {"C14"}
      [] m = "diverge" -> {"C15"}
      [] m = "persist" -> {"C26"}
      [] OTHER -> {}
ValueProps == (IF st.mode \in {"pcyclefix", "diverge"} THEN FamProp(st.mode)
               ELSE IF HasFix(P) THEN {"C12"} ELSE IF HasFb(P) THEN {"C13"} ELSE {"C01"} \cup FamProp(st.mode))
              \cup (IF st.inject > 0 THEN {"C22"} ELSE {})
CheckAll(ids, ok, detail) == IF ok THEN TRUE ELSE \A id \in ids : Viol(id, detail)

SVals(inp, cell) ==
    [inp |-> [i \in 1..Len(inp) |-> [f \in 1..2 |-> inp[i][f].v]], cell |-> cell]

Fresh(p, s0) ==
    LET inp == [i \in 1..Len(p.inputs) |->
                  [f \in 1..2 |-> [v |-> p.inputs[i][f][1], w |-> 1, d |-> p.inputs[i][f][2]]]]
        cell == p.cells
    IN [rev |-> 1, inp |-> inp, cell |-> cell, sem |-> SemOf(p, SVals(inp, cell)),
        cur |-> [op |-> "none"], expect |-> "", stack |-> <<>>, fn |-> <<>>,
        structs |-> <<>>, order |-> <<>>, cap |-> p.lru_cap, handed |-> {},
        dropped |-> {}, evNow |-> {}, pend |-> {}, noC03 |-> FALSE, panics |-> 0,
        restores |-> 0, panicRev |-> 0, injRev |-> 0, wpend |-> [op |-> "none"], applied |-> FALSE, injNow |-> FALSE, mode |-> "", last |-> 0, cyc |-> HasCyc(p), inject |-> 0, injected |-> FALSE, s0 |-> s0,
        idv |-> <<>>, itn |-> <<>>, iq |-> <<<<1>>, <<1, 1>>, <<1, 1, 1>>>>, canon |-> <<>>, canonRev |-> 0, prevId |-> <<>>]

K0 == [has |-> FALSE, v |-> -1, hs |-> <<>>, is |-> <<>>, s |-> 0, deps |-> <<>>, untr |-> FALSE,
       execRev |-> 0, lastVal |-> 0, semCh |-> 0, dur |-> 3, evicted |-> FALSE,
       news |-> <<>>, kj |-> 0, km |-> 0, ki |-> "", running |-> FALSE, assigned |-> FALSE]

Fn(k) == IF k \in DOMAIN st.fn THEN st.fn[k] ELSE K0
PutFn(s, k, r) == [s EXCEPT !.fn = [x \in (DOMAIN s.fn) \cup {k} |-> IF x = k THEN r ELSE s.fn[x]]]

S0 == [creator |-> "", cj |-> 0, pos |-> 0, ident |-> -1, ord |-> 0, x |-> -1, y |-> -1,
       xw |-> 0, yw |-> 0, born |-> 0, d |-> 3, live |-> FALSE]
Struct(id) == IF id \in DOMAIN st.structs THEN st.structs[id] ELSE S0
PutStruct(s, id, r) ==
    [s EXCEPT !.structs = [x \in (DOMAIN s.structs) \cup {id} |-> IF x = id THEN r ELSE s.structs[x]]]

I0 == [kind |-> 0, v |-> -1, gn |-> -1, last |-> 0, dur |-> -9]
Itn(ix) == IF ix \in DOMAIN st.itn THEN st.itn[ix] ELSE I0
PutItn(s, ix, r) == [s EXCEPT !.itn = [x \in (DOMAIN s.itn) \cup {ix} |-> IF x = ix THEN r ELSE s.itn[x]]]
PutMap(m, k, r) == [x \in (DOMAIN m) \cup {k} |-> IF x = k THEN r ELSE m[x]]

IsLruKey(k) == Fn(k).kj > 0 /\ P.fns[Fn(k).kj].kind = "lru"
KindJ(j) == IF j > 0 /\ j <= Len(P.fns) THEN P.fns[j].kind ELSE ""

---------------------------------------------------------------------------
\* semantic lookups

\* abstract struct record (from-scratch) for a logged struct id, or "none"
SemStruct(id) ==
    LET sr == Struct(id) IN
    IF sr.cj > 0 /\ st.sem[sr.cj].err = "" /\ sr.pos <= Len(st.sem[sr.cj].ss)
    THEN [ok |-> TRUE, r |-> st.sem[sr.cj].ss[sr.pos]]
    ELSE [ok |-> FALSE, r |-> SRec(-1, -1, -1)]

SNow == SVals(st.inp, st.cell)

\* from-scratch value of an abstract key (Node-keyed or struct-keyed); -2 = not defined
SemVal(kj, km, ki) ==
    IF kj > 0 THEN (IF st.sem[kj].err = "" THEN st.sem[kj].v ELSE -2)
    ELSE IF km \in 1..4 THEN
        LET ss == SemStruct(ki) IN
        IF ~ss.ok THEN -2
        ELSE LET r == SfnRes(P, SNow, NoTab(P), {}, km, ss.r) IN
             IF r.err = "" THEN r.v ELSE -2
    ELSE -2

---------------------------------------------------------------------------
\* C03: did dependency `d` semantically change after revision r ?

DepChanged(d, r) ==
    CASE d.t = "in"  -> st.inp[d.a][d.b].w > r
      [] d.t \in {"fn", "sfn", "ifn"} -> (~Fn(d.k).has) \/ Fn(d.k).semCh > r
      [] d.t = "fld" -> LET sr == Struct(d.k) IN
                        (~sr.live) \/ sr.born > r
                        \/ (d.b = 1 /\ sr.xw > r) \/ (d.b = 2 /\ sr.yw > r)
      [] d.t = "int" -> Itn(d.a).gn > d.b       \* the interned value was reclaimed
      [] OTHER -> FALSE

RECURSIVE StaleK(_, _)
\* would key k (no longer holding a value) have to be re-executed?  (depth-bounded)
StaleK(k, n) ==
    LET f == Fn(k) IN
    \/ ~f.has
    \/ (f.untr /\ f.execRev < st.rev)
    \/ \E i \in 1..Len(f.deps) :
          LET d == f.deps[i] IN
          \/ DepChanged(d, f.lastVal)
          \/ (n > 0 /\ d.t \in {"fn", "sfn", "ifn"} /\ Fn(d.k).evicted
                    /\ Fn(d.k).lastVal < st.rev /\ StaleK(d.k, n - 1))

ExecJustified(k) ==
    LET f == Fn(k) IN
    \/ ~f.has
    \/ f.evicted
    \/ StaleK(k, 6)

---------------------------------------------------------------------------
\* LRU order (C05): most recently requested last

Without(seq, k) == SelectSeq(seq, LAMBDA x : x # k)
Touch(s, k) ==
    IF s.cap > 0 /\ IsLruKey(k) THEN [s EXCEPT !.order = Append(Without(s.order, k), k)] ELSE s

PosIn(seq, k) == CHOOSE i \in 1..Len(seq) : seq[i] = k

\* keys whose memo could be evicted: holds a value, computed from tracked dependencies
Evictable(k) == Fn(k).has /\ ~Fn(k).untr

---------------------------------------------------------------------------
\* event handlers: each defines st'

ev == Rec[l]
\* bookkeeping-based predicates (identities, reclamation) are only evaluated in runs without injected
\* panics: an interrupted execution leaves the monitor's copy of per-key metadata undefined
Strict == st.inject = 0

OnReset ==
    st' = [Fresh(ev.prog, ev.s0) EXCEPT !.inject = ev.inject, !.mode = ev.mode]

IsMutOp(o) == o \in {"set", "synth", "cell", "lru", "evict"}

\* A &mut operation takes effect when the writer proceeds (hook H4 `wproc`): a panic before that point
\* (e.g. in the event callback) leaves the database untouched.
OnOp ==
    LET base == [st EXCEPT !.cur = ev, !.stack = <<>>, !.evNow = {}, !.expect = "", !.injNow = FALSE] IN
    IF IsMutOp(ev.op) THEN st' = [base EXCEPT !.wpend = ev] ELSE st' = base

ApplyMut(s, o) ==
    IF o.op = "set" THEN
        LET old == s.inp[o.i][o.f]
            r2 == s.rev + 1
            frozen == old.d = 3
            inp2 == IF frozen THEN s.inp
                    ELSE [s.inp EXCEPT ![o.i][o.f] =
                            [v |-> o.v, w |-> r2, d |-> IF o.d >= 0 THEN o.d ELSE old.d]]
        IN [s EXCEPT !.rev = r2, !.inp = inp2, !.handed = {},
                     !.expect = IF frozen THEN "never" ELSE "",
                     !.sem = IF frozen THEN s.sem ELSE SemOf(P, SVals(inp2, s.cell))]
    ELSE IF o.op = "synth" THEN
        [s EXCEPT !.rev = s.rev + 1, !.handed = {}, !.expect = IF o.d = 3 THEN "never" ELSE ""]
    ELSE IF o.op = "cell" THEN
        LET c2 == [s.cell EXCEPT ![o.k] = o.v] IN
        [s EXCEPT !.rev = s.rev + 1, !.handed = {}, !.cell = c2,
                  !.expect = IF o.d = 3 THEN "never" ELSE "",
                  !.sem = SemOf(P, SVals(s.inp, c2))]
    ELSE IF o.op = "lru" THEN
        [s EXCEPT !.cap = o.k, !.handed = {}, !.order = IF o.k = 0 THEN <<>> ELSE s.order]
    ELSE IF o.op = "evict" THEN [s EXCEPT !.handed = {}]
    ELSE s

OnWproc ==
    IF st.wpend.op # "none" THEN st' = [ApplyMut(st, st.wpend) EXCEPT !.wpend = [op |-> "none"], !.applied = TRUE]
    ELSE st' = st

\* LRU obligations at the end of a &mut operation that runs eviction
LruChecks ==
    LET O == SelectSeq(st.order, Evictable)        \* eligible, least recently requested first
        E == st.evNow
        kept == {O[i] : i \in 1..Len(O)} \ E
        \* salsa's capacity also counts requested results that cannot be evicted (untracked ones)
        excess == IF st.cap = 0 THEN 0 ELSE Max2(0, Len(st.order) - st.cap)
    IN
    /\ Check("C05", st.cap = 0 => E = {}, <<"evicted although capacity 0", E>>)
    /\ Check("C05", E \subseteq {O[i] : i \in 1..Len(O)},
             <<"evicted a value that is not an eligible lru result", E, O>>)
    /\ Check("C05", st.cap > 0 => Cardinality(kept) <= st.cap,
             <<"more than capacity retained", kept, st.cap>>)
    /\ Check("C05", \A e \in E \cap {O[i] : i \in 1..Len(O)} : \A k \in kept : PosIn(O, e) < PosIn(O, k),
             <<"discarded result is not the least recently requested", E, O>>)
    /\ Check("C05", Cardinality(E) <= excess,
             <<"discarded more than the excess over capacity", E, O, st.cap>>)

OnRetMut ==
    LET o == st.cur.op
        evicts == o \in {"set", "synth", "cell", "evict"}
        \* salsa pops from the front of its list until it is within capacity
        order2 == IF evicts /\ st.cap > 0 /\ Len(st.order) > st.cap
                  THEN SubSeq(st.order, Len(st.order) - st.cap + 1, Len(st.order))
                  ELSE st.order
    IN
    /\ (~st.injNow) => Check("C02", (st.expect = "never") = (ev.ok = 0 /\ ev.kind = "never"),
             <<"never-change write outcome", st.expect, ev.ok, ev.kind>>)
    /\ (~st.injNow) => Check("C02", st.expect = "" => ev.ok = 1, <<"write panicked", ev.kind, ev.msg>>)
    /\ (~st.injNow) => Check("C02", st.applied, <<"write finished without the writer having proceeded", st.cur>>)
    /\ st.injNow => Check("C22", ev.ok = 0 /\ ev.kind = "inject", <<"injected panic did not reach the caller of the write", ev.ok, ev.kind>>)
    \* (accumulated() requests touch the LRU order in ways the order model does not track: accumlru is judged for C11 only)
    /\ ((Strict /\ ~st.cyc /\ evicts /\ st.applied /\ st.mode # "accumlru") => LruChecks)
    /\ st' = [st EXCEPT !.cur = [op |-> "none"], !.order = IF st.applied THEN order2 ELSE st.order,
                        !.wpend = [op |-> "none"], !.applied = FALSE,
                        !.panics = IF ev.ok = 0 THEN st.panics + 1 ELSE st.panics]

\* outcome class of a read operation against the reference semantics
ReadOutcome(semr, semv, isAcc) ==
    LET inj == st.injected \/ st.inject > 0 IN
    IF st.injNow /\ ~(ev.ok = 0 /\ ev.kind = "inject") THEN
        Check("C22", FALSE, <<"injected panic did not reach the caller", ev.ok, ev.kind, st.cur>>)
    ELSE IF ev.ok = 1 THEN
        /\ Check("C14", semr.err # "cycle", <<"cyclic request returned a value", ev.v>>)
        /\ Check("C15", semr.err \notin {"diverge", "divcycle"}, <<"diverging cycle returned a value", ev.v>>)
        /\ (semr.err \in {"", "maycycle"} /\ ~isAcc) =>
              CheckAll(ValueProps, ev.v = semv, <<"result differs from from-scratch evaluation", ev.v, semv, st.cur>>)
        /\ (semr.err \in {"specforeign", "spectwice"}) =>
              Check("C10", FALSE, <<"specify misuse did not panic", semr.err>>)
    ELSE IF ev.ok = 0 THEN
        IF ev.kind = "inject" THEN TRUE
        ELSE IF semr.err = "cycle" THEN Check("C14", ev.kind = "cycle" \/ (ev.kind = "cancel_pp" /\ st.panicRev = st.rev /\ st.cyc), <<"wrong panic for cycle", ev.kind, ev.msg>>)
        ELSE IF semr.err = "maycycle" THEN Check("C14", ev.kind = "cycle" \/ (ev.kind = "cancel_pp" /\ st.panicRev = st.rev), <<"wrong panic for a request that re-enters a function without recovery", ev.kind, ev.msg>>)
        ELSE IF semr.err = "divcycle" THEN Check("C15", ev.kind \in {"iterlimit", "cancel_pp", "cycle"}, <<"wrong panic for divergence", ev.kind, ev.msg>>)
        ELSE IF semr.err = "diverge" THEN Check("C15", ev.kind \in {"iterlimit", "cancel_pp"}, <<"wrong panic for divergence", ev.kind, ev.msg>>)
        ELSE IF semr.err \in {"specforeign", "spectwice"} THEN TRUE
        ELSE IF st.cyc /\ ev.kind = "cancel_pp" /\ st.injected /\ st.injRev = st.rev THEN TRUE   \* poisoned cycle memo, same revision
        ELSE IF st.cyc /\ ev.kind = "cancel_pp" /\ st.panicRev = st.rev THEN TRUE   \* same: a panic unwound through a cycle head in this revision
        ELSE CheckAll(IF inj THEN {"C22"} ELSE ValueProps, FALSE, <<"unexpected panic", ev.kind, ev.msg, st.cur>>)
    ELSE TRUE

OnRetRead ==
    LET o == st.cur.op
        j == st.cur.f
        k == "f" \o ToString(j)
    IN
    IF o = "get" THEN
        LET semr == st.sem[j] IN
        /\ ReadOutcome(semr, semr.v, FALSE)
        /\ (ev.ok = 1 /\ semr.err = "") =>
              Check("C01", Len(ev.hs) = Len(semr.ss) /\ ev.ni = Len(semr.is), <<"number of exported handles differs", ev.hs, Len(semr.ss), ev.ni, Len(semr.is)>>)
        /\ (Strict /\ ev.ok = 1 /\ Fn(k).untr) =>
              Check("C04", Fn(k).execRev = st.rev, <<"untracked function not re-executed in this revision", k>>)
        /\ st' = [Touch(st, k) EXCEPT !.cur = [op |-> "none"], !.stack = <<>>,
                     !.last = IF ev.ok = 1 THEN j ELSE 0,
                     !.handed = IF ev.ok = 1 THEN st.handed \cup {<<ev.s, ev.v>>} ELSE st.handed,
                     !.noC03 = st.noC03 \/ ev.ok = 0,
                     !.panicRev = IF ev.ok = 0 THEN st.rev ELSE st.panicRev,
                     !.panics = IF ev.ok = 0 THEN st.panics + 1 ELSE st.panics]
    ELSE IF o = "accum" THEN
        LET semr == st.sem[j] IN
        /\ ReadOutcome(semr, 0, TRUE)
        /\ (ev.ok = 1 /\ semr.err = "") =>
              Check("C11", ev.acc = AccumRef(st.sem, j), <<"accumulated values differ", ev.acc, AccumRef(st.sem, j)>>)
        /\ st' = [st EXCEPT !.cur = [op |-> "none"], !.stack = <<>>,
                     !.noC03 = st.noC03 \/ ev.ok = 0,
                     !.panics = IF ev.ok = 0 THEN st.panics + 1 ELSE st.panics]
    ELSE IF o = "gets" THEN
        \* value of struct function m on the k-th struct of creator j; checked at `subkey`/`be`
        LET semr == st.sem[j]
            kk == st.cur.k
            ok2 == semr.err = "" /\ kk >= 1 /\ kk <= Len(semr.ss)
            sv == IF ok2 THEN SfnRes(P, SNow, NoTab(P), {}, st.cur.m, semr.ss[kk]) ELSE ErrRes("skip")
        IN
        /\ (ev.ok = 1) => Check("C01", ok2 /\ sv.err = "" /\ ev.v = sv.v,
                                <<"struct function result differs", ev.v, sv, st.cur>>)
        /\ (ev.ok = 2) => Check("C01", ~ok2 \/ semr.err # "", <<"struct missing", st.cur>>)
        /\ (ev.ok = 0) => ReadOutcome(IF semr.err # "" THEN semr ELSE sv, 0, TRUE)
        /\ st' = [st EXCEPT !.cur = [op |-> "none"], !.stack = <<>>,
                     !.handed = IF ev.ok = 1 THEN st.handed \cup {<<ev.s, ev.v>>} ELSE st.handed,
                     !.noC03 = st.noC03 \/ ev.ok = 0,
                     !.panics = IF ev.ok = 0 THEN st.panics + 1 ELSE st.panics]
    ELSE st' = [st EXCEPT !.cur = [op |-> "none"], !.stack = <<>>]

OnRet ==
    /\ Strict => Check("C06", st.pend = {}, <<"stale tracked structs not discarded", st.pend>>)
    /\ IF IsMutOp(st.cur.op) THEN OnRetMut ELSE OnRetRead

\* top-level field getters on the handles of the result just returned (st.last = fn index)
OnTfld ==
    LET j == st.last
        ok == j > 0 /\ st.sem[j].err = "" /\ ev.pos <= Len(st.sem[j].ss)
        sr == IF ok THEN st.sem[j].ss[ev.pos] ELSE SRec(-1, -1, -1)
        good == ok /\ ev.ident = sr.ident /\ ev.x = sr.x /\ ev.y = sr.y
    IN
    /\ Check("C01", good, <<"struct fields read at top level differ from from-scratch evaluation", j, ev.pos, ev.id, <<ev.ident, ev.x, ev.y>>, sr>>)
    /\ Check("C07", good, <<"struct fields read at top level differ from from-scratch evaluation", j, ev.pos, ev.id>>)
    /\ st' = st

OnTint ==
    LET j == st.last
        ok == j > 0 /\ st.sem[j].err = "" /\ ev.pos <= Len(st.sem[j].is)
        exp == IF ok THEN st.sem[j].is[ev.pos].v ELSE -2
    IN
    /\ Check("C01", ok /\ ev.v = exp, <<"interned field read at top level differs", j, ev.pos, ev.id, ev.v, exp>>)
    /\ Check("C07", ok /\ ev.v = exp, <<"interned field read at top level differs", j, ev.pos, ev.id, ev.v, exp>>)
    /\ Check("C08", ok /\ ev.v = exp, <<"interned field read at top level differs", j, ev.pos, ev.id, ev.v, exp>>)
    /\ st' = st

OnTpanic ==
    /\ Check("C01", FALSE, <<"field getter panicked at top level", ev.kind, ev.msg>>)
    /\ st' = st

OnSub ==
    \* intermediate result of the creator inside a `gets`
    st' = [Touch(st, "f" \o ToString(st.cur.f)) EXCEPT !.handed = st.handed \cup {<<ev.s, ev.v>>}]

OnWe ==
    LET k == ev.k
        f == Fn(k)
        judge == ~st.noC03 /\ ~st.cyc /\ st.inject = 0
    IN
    /\ judge => CheckAll(IF st.mode = "persist" THEN {"C03", "C26"} ELSE {"C03"}, ExecJustified(k), <<"re-executed although nothing it read changed", k, f.deps, f.lastVal, st.rev>>)
    /\ (judge /\ st.cap = 0 /\ ~(\E j \in 1..Len(P.fns) : P.fns[j].kind = "lru")) =>
          Check("C17", f.execRev < st.rev, <<"executed twice in one revision", k, st.rev>>)
    /\ (ev.km = 3 /\ ~st.cyc) =>
          LET ss == SemStruct(ev.ki) IN
          Check("C10", ~(ss.ok /\ ss.r.sp >= 0), <<"body of a specified function executed", k>>)
    /\ st' = PutFn(st, k, [f EXCEPT !.execRev = st.rev, !.lastVal = st.rev, !.running = TRUE,
                                    !.kj = ev.kj, !.km = ev.km, !.ki = ev.ki])

OnDv ==
    LET k == ev.k f == Fn(k) IN
    /\ Strict => Check("C07", \A i \in 1..Len(f.deps) :
                 LET d == f.deps[i] IN
                 /\ (d.t = "int" => Itn(d.a).gn = d.b)
                 /\ (d.t = "fld" => Struct(d.k).live),
             <<"validated although a struct or interned value it depends on was reclaimed", k, f.deps>>)
    /\ st' = PutFn(st, k, [f EXCEPT !.lastVal = st.rev])

OnBs ==
    st' = [st EXCEPT !.stack = Append(st.stack,
              [k |-> ev.k, kj |-> ev.kj, km |-> ev.km, ki |-> ev.ki, deps |-> <<>>,
               untr |-> FALSE, dmin |-> 3, news |-> <<>>,
               is |-> IF ev.km \in 11..14 /\ ev.ki \in DOMAIN st.idv
                      THEN <<[kind |-> ev.km - 10, v |-> st.idv[ev.ki]]>> ELSE <<>>])]

Top == st.stack[Len(st.stack)]
SetTop(s, fr) == [s EXCEPT !.stack[Len(s.stack)] = fr]

DepDur(d) ==
    CASE d.t = "in" -> st.inp[d.a][d.b].d
      [] d.t \in {"fn", "sfn", "ifn"} -> Fn(d.k).dur
      [] d.t = "fld" -> IF d.b = 0 THEN 3 ELSE Struct(d.k).d    \* reading an identity (untracked) field records no dependency
      [] d.t = "int" -> 3     \* an edge is only recorded for LOW values, by LOW interners: no effect
      [] OTHER -> 0

OnRd ==
    LET d == [t |-> ev.st, a |-> IF ev.st = "fn" THEN ev.sj ELSE ev.sa, b |-> ev.sb, k |-> ev.sk]
        fr == Top
        dd == DepDur(d)
        fr2 == [fr EXCEPT !.deps = Append(fr.deps, d),
                          !.untr = fr.untr \/ d.t \in {"cell", "untr"},
                          !.dmin = IF dd < 0 \/ fr.dmin < 0 THEN -1 ELSE Min2(fr.dmin, dd)]
        s2 == SetTop(st, fr2)
    IN
    /\ Len(st.stack) > 0
    /\ CASE d.t = "in" ->
              Check("C01", ev.v = st.inp[d.a][d.b].v, <<"input field read differs", d, ev.v>>)
         [] d.t = "cell" ->
              Check("C04", ev.v = st.cell[d.a], <<"cell read differs", d, ev.v>>)
         [] d.t = "fn" ->
              /\ (st.sem[d.a].err = "" /\ ~st.cyc) =>
                    CheckAll(ValueProps, ev.v = st.sem[d.a].v, <<"nested result differs from from-scratch evaluation", d, ev.v, st.sem[d.a].v>>)
              /\ (Strict /\ Fn(d.k).untr) =>
                    Check("C04", Fn(d.k).execRev = st.rev, <<"untracked function not re-executed in this revision", d.k>>)
         [] d.t = "fld" ->
              LET ss == SemStruct(d.k) IN
              Check("C01", ss.ok /\ ev.v = (IF d.b = 0 THEN ss.r.ident ELSE IF d.b = 1 THEN ss.r.x ELSE ss.r.y),
                    <<"tracked struct field read differs", d, ev.v, ss>>)
         [] d.t = "int" ->
              LET okslot == ev.sb >= 1 /\ ev.sb <= Len(fr.is)
                  exp == IF okslot THEN fr.is[ev.sb].v ELSE -2 IN
              /\ Check("C08", okslot /\ ev.v = exp, <<"interned field read differs from the interned value", d, ev.v, exp>>)
              /\ Check("C07", okslot /\ ev.v = exp, <<"interned field read differs from the interned value", d, ev.v, exp>>)
              /\ Check("C01", okslot /\ ev.v = exp, <<"interned field read differs from the interned value", d, ev.v, exp>>)
         [] d.t = "sfn" ->
              LET sv == SemVal(0, d.a, Fn(d.k).ki) IN
              (sv >= 0) => Check(IF d.a = 3 THEN "C10" ELSE "C01", ev.v = sv, <<"struct function read differs", d, ev.v, sv>>)
         [] OTHER -> TRUE
    /\ st' = IF d.t = "fn"
             THEN LET cis == IF st.sem[d.a].err = "" THEN st.sem[d.a].is ELSE <<>> IN
                  Touch(SetTop(st, [fr2 EXCEPT !.is = fr2.is \o cis]), d.k)
             ELSE IF d.t = "int" THEN SetTop(st, [fr EXCEPT !.deps = fr.deps])   \* reading a field records no edge
             ELSE s2

\* salsa identifies a tracked struct by (creator, hash of the identity fields, disambiguator); identity-field
\* values >= 10 share one hash in the harness (structcoll family)
HashClass(i) == IF i >= 10 THEN 10 ELSE i
IdStr(ix, gn) == ToString(ix) \o "." \o ToString(gn)

OnNew ==
    LET fr == Top
        k == fr.k
        ord == Cardinality({i \in 1..Len(fr.news) : HashClass(fr.news[i].ident) = HashClass(ev.ident)}) + 1
        prev == Fn(k).news
        prevSame == SelectSeq(prev, LAMBDA r : HashClass(r.ident) = HashClass(ev.ident))
        old == Struct(ev.id)
        same == old.live /\ old.creator = k /\ old.ident = ev.ident
        \* the struct that held this slot in its previous generation, replaced in place when the identity
        \* fields differ under the same identity hash (no discard event is emitted for it)
        prevGen == IF ev.gn > 0 THEN IdStr(ev.ix, ev.gn - 1) ELSE ""
        replaced == prevGen # "" /\ prevGen \in DOMAIN st.structs /\ st.structs[prevGen].live
                    /\ st.structs[prevGen].creator = k /\ prevGen # ev.id
        dnow == fr.dmin
        sr == [creator |-> k, cj |-> fr.kj, pos |-> ev.pos, ident |-> ev.ident, ord |-> ord,
               x |-> ev.x, y |-> ev.y,
               xw |-> IF same /\ old.x = ev.x /\ ~(dnow < old.d) THEN old.xw ELSE st.rev,
               yw |-> IF same /\ old.y = ev.y /\ ~(dnow < old.d) THEN old.yw ELSE st.rev,
               born |-> IF same THEN old.born ELSE st.rev, d |-> dnow, live |-> TRUE]
        fr2 == [fr EXCEPT !.news = Append(fr.news, [ident |-> ev.ident, id |-> ev.id])]
    IN
    /\ Len(st.stack) > 0
    /\ (Strict /\ ~st.cyc /\ Fn(k).has /\ ord <= Len(prevSame) /\ Struct(prevSame[ord].id).live /\ prevSame[ord].ident = ev.ident) =>
          Check("C06", prevSame[ord].id = ev.id,
                <<"recreated struct received a different identity", k, ev.ident, ord, prevSame[ord].id, ev.id>>)
    /\ (Strict /\ ~st.cyc /\ Fn(k).has /\ ord <= Len(prevSame) /\ prevSame[ord].ident # ev.ident) =>
          CheckAll({"C06", "C07"}, ev.id \notin DOMAIN st.structs,
                <<"struct with different identity fields received an identity that was handed out before", k, ev.ident, prevSame[ord].ident, ev.id>>)
    /\ (Strict /\ ev.id \in DOMAIN st.structs /\ ~old.live) =>
          CheckAll({"C06", "C07"}, FALSE,
                <<"identity of a discarded struct handed out again", ev.id, old.creator, old.ident, k, ev.ident>>)
    /\ Strict => Check("C06", \A i \in 1..Len(fr.news) : fr.news[i].id # ev.id,
             <<"two structs of one execution share an identity", k, ev.id>>)
    /\ (Strict /\ old.live) => Check("C06", old.creator = k /\ old.ident = ev.ident /\ old.ord = ord,
             <<"identity of a live struct handed to a different struct", ev.id, old.creator, k>>)
    /\ st' = LET s1 == PutStruct(SetTop(st, fr2), ev.id, sr) IN
             IF replaced THEN PutStruct(s1, prevGen, [s1.structs[prevGen] EXCEPT !.live = FALSE]) ELSE s1

OnBe ==
    LET fr == Top
        k == fr.k
        f == Fn(k)
        noeq == fr.kj > 0 /\ KindJ(fr.kj) \in {"noeq", "pnoeq"}
        newdur == fr.dmin
        changed == \/ ~f.has \/ f.evicted \/ f.v # ev.v \/ f.hs # ev.hs \/ f.is # ev.is \/ noeq
                   \/ newdur < 0 \/ f.dur < 0 \/ newdur < f.dur
        oldIds == {f.news[i].id : i \in 1..Len(f.news)}
        newIds == {fr.news[i].id : i \in 1..Len(fr.news)}
        sv == SemVal(fr.kj, fr.km, fr.ki)
        f2 == [f EXCEPT !.has = TRUE, !.v = ev.v, !.hs = ev.hs, !.is = ev.is, !.s = ev.s, !.deps = fr.deps,
                        !.untr = fr.untr, !.semCh = IF changed THEN st.rev ELSE f.semCh,
                        !.dur = IF fr.untr THEN 0 ELSE newdur, !.evicted = FALSE,
                        !.news = fr.news, !.running = FALSE, !.assigned = FALSE,
                        !.kj = fr.kj, !.km = fr.km, !.ki = fr.ki]
        s2 == PutFn([st EXCEPT !.stack = SubSeq(st.stack, 1, Len(st.stack) - 1),
                               !.pend = IF f.has THEN st.pend \cup {i \in oldIds \ newIds : Struct(i).live} ELSE st.pend],
                    k, f2)
    IN
    /\ Len(st.stack) > 0
    /\ Check("C01", ev.k = k, <<"body_end does not match the innermost frame", ev.k, k>>)
    /\ (~st.cyc /\ sv >= 0) =>
          Check("C01", ev.v = sv, <<"function body result differs from from-scratch evaluation", k, ev.v, sv>>)
    /\ st' = s2

OnDrop ==
    LET s == ev.s
        ks == {k \in DOMAIN st.fn : st.fn[k].s = s /\ st.fn[k].has}
        inMut == IsMutOp(st.cur.op)
        s1 == [st EXCEPT !.dropped = st.dropped \cup {s},
                         !.evNow = IF inMut THEN st.evNow \cup ks ELSE st.evNow]
        s2 == [s1 EXCEPT !.fn = [k \in DOMAIN s1.fn |->
                    IF k \in ks THEN [s1.fn[k] EXCEPT !.evicted = TRUE] ELSE s1.fn[k]]]
    IN
    /\ Check("C23", s \notin st.dropped, <<"value dropped twice", s>>)
    /\ Check("C23", ~(\E p \in st.handed : p[1] = s), <<"value dropped while a reference handed out in this revision is live", s>>)
    /\ st' = s2

OnRetained ==
    /\ Check("C23", ev.s \notin st.dropped, <<"retained reference to a dropped value", ev.s>>)
    /\ Check("C23", <<ev.s, ev.v>> \in st.handed, <<"retained reference changed its value", ev.s, ev.v>>)
    /\ st' = st

OnDd ==
    \* DidDiscard of a tracked struct or of a memo
    IF ev.km = 30 /\ ev.ki \in DOMAIN st.structs THEN
        LET s1 == PutStruct(st, ev.ki, [Struct(ev.ki) EXCEPT !.live = FALSE]) IN
        st' = [s1 EXCEPT !.pend = st.pend \ {ev.ki},
                         !.fn = [k \in DOMAIN s1.fn |->
                                   IF s1.fn[k].ki = ev.ki THEN [s1.fn[k] EXCEPT !.has = FALSE] ELSE s1.fn[k]]]
    ELSE IF ev.k \in DOMAIN st.fn THEN
        st' = PutFn(st, ev.k, [Fn(ev.k) EXCEPT !.has = FALSE])
    ELSE st' = st

\* a value handed to `specify`: it becomes the current value of the specified key unless an
\* earlier-computed value wins (then it is dropped right away)
OnSpecv ==
    LET k == ev.sk f == Fn(k) IN
    st' = PutFn(st, k, [f EXCEPT !.s = ev.s, !.assigned = TRUE])

\* ---- interning (C07, C08, C09) ----
OnIrec ==
    LET c == ev.cap IN
    IF c \in 1..3
    THEN st' = [st EXCEPT !.iq[c] = <<ev.rev>> \o SubSeq(st.iq[c], 1, c - 1)]
    ELSE st' = st

\* a fresh slot
OnDiv ==
    st' = PutItn(st, ev.ix, [kind |-> ev.km - 20, v |-> -1, gn |-> ev.gn, last |-> st.rev, dur |-> -9])

OnDviv ==
    st' = PutItn(st, ev.ix, [Itn(ev.ix) EXCEPT !.last = st.rev])

\* a slot is reused for different data: only if reclaimable and stale (C09)
OnDriv ==
    LET old == Itn(ev.ix)
        K == old.kind
        q == IF K \in 1..3 THEN st.iq[K] ELSE <<>>
        primed == K \in 1..3 /\ q[K] > 1
        stale == primed /\ old.last < q[K]
        oldid == IdStr(ev.ix, old.gn)
        s1 == PutItn(st, ev.ix, [kind |-> ev.km - 20, v |-> -1, gn |-> ev.gn, last |-> st.rev, dur |-> -9])
    IN
    /\ Strict => Check("C09", K \in 1..3, <<"slot of a non-collectable interned type reused", ev.k, old>>)
    /\ Strict => Check("C09", old.dur <= 0, <<"slot of a value interned by a durable function reused", ev.k, old>>)
    /\ Strict => Check("C09", primed, <<"slot reused before enough revisions used the type", ev.k, old, q>>)
    /\ Strict => Check("C09", stale, <<"slot reused although the value was interned/validated recently", ev.k, old, q>>)
    /\ Strict => Check("C09", ev.gn > old.gn, <<"slot reused without a new generation", ev.k, old>>)
    /\ st' = [s1 EXCEPT !.fn = [k \in DOMAIN s1.fn |->
                  IF s1.fn[k].km \in 11..14 /\ s1.fn[k].ki = oldid THEN [s1.fn[k] EXCEPT !.has = FALSE] ELSE s1.fn[k]]]

OnInt ==
    LET fr == Top
        key == <<ev.kind, ev.v>>
        cn == IF st.canonRev = st.rev THEN st.canon ELSE <<>>
        it == Itn(ev.ix)
        d2 == IF it.dur = -9 THEN fr.dmin ELSE Max2(it.dur, fr.dmin)
        pv == IF key \in DOMAIN st.prevId THEN st.prevId[key] ELSE [ix |-> -1, gn |-> -1]
        s1 == PutItn(st, ev.ix, [kind |-> ev.kind, v |-> ev.v, gn |-> ev.gn, last |-> st.rev, dur |-> d2])
        fr2 == [fr EXCEPT !.is = Append(fr.is, [kind |-> ev.kind, v |-> ev.v]),
                          !.deps = Append(fr.deps, [t |-> "int", a |-> ev.ix, b |-> ev.gn, k |-> ev.id])]
    IN
    /\ Len(st.stack) > 0
    /\ (key \in DOMAIN cn) =>
          Check("C08", cn[key] = ev.id, <<"equal values interned to different handles in one revision", key, cn[key], ev.id>>)
    /\ Check("C08", \A k2 \in DOMAIN cn : (k2 # key /\ k2[1] = ev.kind) => cn[k2] # ev.id,
             <<"unequal values interned to the same handle in one revision", key, ev.id>>)
    /\ Strict => Check("C08", it.gn = ev.gn /\ (it.v = -1 \/ it.v = ev.v),
             <<"handle does not belong to the interned value", key, ev.id, it>>)
    /\ (Strict /\ pv.ix >= 0 /\ (pv.ix # ev.ix \/ pv.gn # ev.gn)) =>
          Check("C08", Itn(pv.ix).gn > pv.gn,
                <<"value changed its identity although its slot was not reclaimed", key, pv, ev.id>>)
    /\ st' = [SetTop(s1, fr2) EXCEPT !.canon = PutMap(cn, key, ev.id), !.canonRev = st.rev,
                                     !.prevId = PutMap(st.prevId, key, [ix |-> ev.ix, gn |-> ev.gn]),
                                     !.idv = PutMap(st.idv, ev.id, ev.v)]

\* the database was serialized, dropped and restored into a fresh one: memos of functions that are not
\* persisted are gone, persisted ones are kept (C26)
RECURSIVE FlatDeps(_, _)
\* dependencies of a restored memo: serialization flattens edges through functions that are not persisted
\* (and may keep edges to the inputs read below persisted ones), so a restored result is only required to be
\* reused if none of its transitive inputs was written (C26); the direct dependencies are kept as well
FlatDeps(k, n) ==
    LET ds == Fn(k).deps
        One(d) == IF n > 0 /\ d.t = "fn" THEN <<d>> \o FlatDeps(d.k, n - 1) ELSE <<d>>
        RECURSIVE Cat(_)
        Cat(i) == IF i > Len(ds) THEN <<>> ELSE One(ds[i]) \o Cat(i + 1)
    IN Cat(1)

OnRestored ==
    st' = [st EXCEPT !.fn = [k \in DOMAIN st.fn |->
              IF st.fn[k].kj > 0 /\ KindJ(st.fn[k].kj) = "pnp" THEN [st.fn[k] EXCEPT !.has = FALSE]
              ELSE [st.fn[k] EXCEPT !.deps = FlatDeps(k, 6)]],
              !.handed = {}, !.restores = st.restores + 1]

OnInject == st' = [st EXCEPT !.injected = TRUE, !.noC03 = TRUE, !.injNow = TRUE, !.injRev = st.rev]

OnDbDropBegin == st' = [st EXCEPT !.handed = {}, !.cur = [op |-> "dbdrop"]]

\* every value created during the job has been dropped exactly once when the database is gone
OnDbDropEnd ==
    /\ (st.mode # "persist") => Check("C23", Cardinality(st.dropped) = ev.s1 - st.s0,
             <<"values leaked at database drop", ev.s1 - st.s0 - Cardinality(st.dropped)>>)
    /\ st' = st

---------------------------------------------------------------------------

TraceInit ==
    /\ l = 1
    /\ P = Rec[1].prog
    /\ st = Fresh(Rec[1].prog, Rec[1].s0)

TraceNext ==
    /\ l <= N
    /\ l' = l + 1
    /\ P' = IF ev.e = "reset" THEN ev.prog ELSE P
    /\ CASE ev.e = "reset" -> OnReset
         [] ev.e = "op" -> OnOp
         [] ev.e = "ret" -> OnRet
         [] ev.e = "sub" -> OnSub
         [] ev.e = "tfld" -> OnTfld
         [] ev.e = "tint" -> OnTint
         [] ev.e = "tpanic" -> OnTpanic
         [] ev.e = "we" -> OnWe
         [] ev.e = "dv" -> OnDv
         [] ev.e = "bs" -> OnBs
         [] ev.e = "rd" -> OnRd
         [] ev.e = "new" -> OnNew
         [] ev.e = "be" -> OnBe
         [] ev.e = "drop" -> OnDrop
         [] ev.e = "retained" -> OnRetained
         [] ev.e = "dd" -> OnDd
         [] ev.e = "specv" -> OnSpecv
         [] ev.e = "restored" -> OnRestored
         [] ev.e = "wproc" -> OnWproc
         [] ev.e = "irec" -> OnIrec
         [] ev.e = "div" -> OnDiv
         [] ev.e = "dviv" -> OnDviv
         [] ev.e = "driv" -> OnDriv
         [] ev.e = "int" -> OnInt
         [] ev.e = "inject" -> OnInject
         [] ev.e = "dbdrop_begin" -> OnDbDropBegin
         [] ev.e = "dbdrop_end" -> OnDbDropEnd
         [] OTHER -> st' = st

TraceSpec == TraceInit /\ [][TraceNext]_vars

\* the whole file was consumed (one state per line plus the initial state)
TraceAccepted ==
    LET d == TLCGet("stats").diameter IN
    IF d - 1 = N THEN TRUE
    ELSE Print(<<"STUCK", d, IF d <= N THEN Rec[d] ELSE "eof">>, FALSE)

=============================================================================
