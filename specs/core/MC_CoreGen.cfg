SPECIFICATION Spec
CONSTANTS
  MaxOps = 5
  MaxWrites = 3
  DurChoices = {4, 2}
  SynthDurs = {1}
  CapChoices = {}
  Emit = FALSE
  defaultInitValue = 0
INVARIANTS NoViol LcMonotone MemoStamps ShallowSound StampBelowSem EmitInv
VIEW View
CHECK_DEADLOCK FALSE
