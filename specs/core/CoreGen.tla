------------------------------- MODULE CoreGen -------------------------------
(***************************************************************************)
(* Generative specification of salsa's sequential incremental engine:      *)
(* revisions and durabilities, input writes, memo verification (shallow /  *)
(* deep), execution with dependency recording, backdating, untracked       *)
(* reads, LRU eviction.  One label per critical step of the code:          *)
(*                                                                         *)
(*   Fetch         function/fetch.rs        fetch, fetch_hot, fetch_cold   *)
(*   DeepVerify    maybe_changed_after.rs   deep_verify_memo / _edges      *)
(*   MaybeChanged  maybe_changed_after.rs   maybe_changed_after(_cold)     *)
(*   Exec          execute.rs, active_query.rs, backdate.rs                *)
(*   Write/Synth   input.rs set_field, runtime.rs report_tracked_write,    *)
(*                 zalsa.rs new_revision, eviction/lru.rs                  *)
(*                                                                         *)
(* Programs are data (Sem.tla); the history of API operations is the only  *)
(* nondeterminism.  TLC checks on every behaviour that the algorithm       *)
(* returns from-scratch results (C01/C02/C04/C05), re-executes only when   *)
(* justified (C03), at most once per revision (C17, sequential instance),  *)
(* and a few design lemmas (shallow verification is sound, lastChanged is  *)
(* monotone, the backdate assertion never fires).                          *)
(***************************************************************************)
EXTENDS Sem, Json, IOUtils

CONSTANTS MaxOps,        \* API operations per history
          MaxWrites,     \* of which writes (new revisions)
          DurChoices,    \* durability argument of writes: -1 = keep, 0..3
          SynthDurs,     \* durabilities of synthetic writes
          CapChoices,    \* capacities for set_lru_capacity ({} = never called)
          Emit           \* TRUE: print one replayable history per explored leaf

Progs == ndJsonDeserialize(IOEnv.PROGS)

Min2(a, b) == IF a < b THEN a ELSE b
Max2(a, b) == IF a > b THEN a ELSE b

MemoInit == [has |-> FALSE, valp |-> FALSE, val |-> -1, ver |-> 0, ca |-> 0, dur |-> 3,
       deps |-> <<>>, untr |-> FALSE]
BkInit == [had |-> FALSE, val |-> -1, semCh |-> 0, dur |-> 3, execRev |-> 0, evicted |-> FALSE,
       sdeps |-> <<>>, suntr |-> FALSE, lastVal |-> 0]

(* --algorithm CoreGen {
variables
    pi \in 1..Len(Progs),
    P = Progs[pi],
    NF = Len(P.fns),
    rev = 1,
    lc = <<1, 1>>,                      \* last-changed revision of MEDIUM, HIGH
    inp = [i \in 1..Len(P.inputs) |->
             [f \in 1..2 |-> [v |-> P.inputs[i][f][1], ca |-> 1, d |-> P.inputs[i][f][2]]]],
    cell = P.cells,
    memo = [j \in 1..NF |-> MemoInit],
    order = <<>>,                       \* LRU set of the `lru` function family, front first
    cap = P.lru_cap,
    frames = <<>>,                      \* active query stack
    rv = -1, okv = FALSE, chg = FALSE,  \* return registers
    nops = 0, nwrites = 0,
    \* ---- semantic bookkeeping (from values, not from the algorithm's decisions) ----
    bk = [j \in 1..NF |-> BkInit],
    execd = <<>>,                       \* functions executed by the current operation, in order
    vald = {},                          \* functions validated by the current operation
    hist = <<>>,                        \* operations with the model's predicted outcome
    viol = {};

define {
    LastChanged(d) == IF d = 0 THEN rev ELSE IF d = 3 THEN 1 ELSE lc[d]
    ShallowOk(m) == m.ver = rev \/ LastChanged(m.dur) <= m.ver
    SNow == [inp |-> [i \in 1..Len(inp) |-> [f \in 1..2 |-> inp[i][f].v]], cell |-> cell]
    IsLru(j) == P.fns[j].kind = "lru"
    Without(seq, k) == SelectSeq(seq, LAMBDA x : x # k)

    AddRead(fr, dep, d, ca) ==
        [fr EXCEPT !.deps = IF d # 3 /\ ~InSeq(dep, fr.deps) THEN Append(fr.deps, dep) ELSE fr.deps,
                   !.sdeps = Append(fr.sdeps, dep),
                   !.dmin = Min2(fr.dmin, d), !.camax = Max2(fr.camax, ca)]

    Frame0(q) == [q |-> q, deps |-> <<>>, sdeps |-> <<>>, dmin |-> 3, camax |-> 1, untr |-> FALSE]

    \* run a body from node n up to the next call or return (input / cell reads are local steps)
    RECURSIVE Adv(_, _, _)
    Adv(def, n, fr) ==
        LET nd == def.nodes[n] IN
        CASE nd.op = "in" ->
                LET x == inp[nd.a][nd.b] IN
                Adv(def, Kid(nd, x.v), AddRead(fr, [t |-> "in", a |-> nd.a, b |-> nd.b], x.d, x.ca))
          [] nd.op = "cell" ->
                Adv(def, Kid(nd, cell[nd.a]), [fr EXCEPT !.untr = TRUE, !.dmin = 0, !.camax = rev])
          [] nd.op = "untr" ->
                Adv(def, Kid(nd, 0), [fr EXCEPT !.untr = TRUE, !.dmin = 0, !.camax = rev])
          [] OTHER -> [n |-> n, fr |-> fr]

    \* LRU eviction at a new revision / explicit trigger
    Popped == IF cap > 0 /\ Len(order) > cap THEN SubSeq(order, 1, Len(order) - cap) ELSE <<>>
    Evicts == {Popped[i] : i \in 1..Len(Popped)}
    AfterEvict(mm) == [j \in 1..NF |->
        IF j \in Evicts /\ mm[j].has /\ ~mm[j].untr THEN [mm[j] EXCEPT !.valp = FALSE] ELSE mm[j]]
    BkAfterEvict(b) == [j \in 1..NF |->
        IF j \in Evicts /\ memo[j].has /\ ~memo[j].untr THEN [b[j] EXCEPT !.evicted = TRUE] ELSE b[j]]
    OrderAfterEvict == IF cap > 0 /\ Len(order) > cap
                       THEN SubSeq(order, Len(order) - cap + 1, Len(order)) ELSE order

    \* ---- C03: semantic justification of an execution (same definition as CoreTrace) ----
    DepChangedG(d, r) ==
        IF d.t = "in" THEN inp[d.a][d.b].ca > r
        ELSE (~bk[d.a].had) \/ bk[d.a].semCh > r
    RECURSIVE StaleG(_, _)
    StaleG(k, n) ==
        \/ ~bk[k].had
        \/ (bk[k].suntr /\ bk[k].execRev < rev)
        \/ \E i \in 1..Len(bk[k].sdeps) :
              LET d == bk[k].sdeps[i] IN
              \/ DepChangedG(d, bk[k].lastVal)
              \/ (n > 0 /\ d.t = "fn" /\ bk[d.a].evicted /\ bk[d.a].lastVal < rev /\ StaleG(d.a, n - 1))
    ExecJustifiedG(k) == (~bk[k].had) \/ bk[k].evicted \/ StaleG(k, 6)

    \* ---- operations offered to the environment ----
    WriteOps == {[op |-> "set", i |-> i, f |-> f, v |-> v, d |-> d, k |-> 0] :
                    i \in 1..Len(P.inputs), f \in 1..2, v \in 0..(P.nv - 1), d \in DurChoices}
    SynthOps == {[op |-> "synth", i |-> 0, f |-> 0, v |-> 0, d |-> d, k |-> 0] : d \in SynthDurs}
    CellOps == {[op |-> "cell", i |-> 0, f |-> 0, v |-> v, d |-> 0, k |-> k] :
                    k \in 1..Len(P.cells), v \in 0..(P.nv - 1)}
    LruOps == {[op |-> "lru", i |-> 0, f |-> 0, v |-> 0, d |-> 0, k |-> c] : c \in CapChoices}
                \cup (IF CapChoices = {} THEN {} ELSE {[op |-> "evict", i |-> 0, f |-> 0, v |-> 0, d |-> 0, k |-> 0]})
    GetOps == {[op |-> "get", i |-> 0, f |-> j, v |-> 0, d |-> 0, k |-> 0] : j \in 1..NF}
    MutOps == WriteOps \cup SynthOps \cup CellOps
}

\* ---------------------------------------------------------------------------------------
\* function/fetch.rs
procedure Fetch(fq) {
 F0: if (memo[fq].has /\ memo[fq].valp /\ ShallowOk(memo[fq])) {
        \* fetch_hot; update_shallow marks the memo verified (DidValidateMemoizedValue)
        if (memo[fq].ver # rev) {
            vald := vald \cup {fq};
            bk[fq].lastVal := rev;
        };
        memo[fq].ver := rev;
        goto F3;
     } else if (memo[fq].has /\ memo[fq].valp) {
        \* fetch_cold: verify_memo -> deep verification
        call DeepVerify(fq);
     } else {
        goto F2;
     };
 F1: if (okv) { goto F3; };
 F2: call Exec(fq);
 F3: \* eviction.record_use + report_tracked_read on the caller's frame
     if (IsLru(fq) /\ cap > 0) { order := Append(Without(order, fq), fq); };
     if (frames # <<>>) {
        frames[Len(frames)] := AddRead(frames[Len(frames)], [t |-> "fn", a |-> fq, b |-> 0],
                                       memo[fq].dur, memo[fq].ca);
     };
     rv := memo[fq].val;
     \* C04: a value whose last execution read untracked state is only consumed after re-execution
     if (bk[fq].suntr /\ bk[fq].execRev # rev) { viol := viol \cup {"C04"}; };
     return;
}

\* maybe_changed_after.rs: deep_verify_memo + deep_verify_edges
procedure DeepVerify(dq)
  variables di = 1;
{
 D0: if (memo[dq].untr) { okv := FALSE; return; };
 D1: while (di <= Len(memo[dq].deps)) {
        if (memo[dq].deps[di].t = "in") {
            if (inp[memo[dq].deps[di].a][memo[dq].deps[di].b].ca > memo[dq].ver) {
                okv := FALSE; return;
            };
        } else {
            call MaybeChanged(memo[dq].deps[di].a, memo[dq].ver);
 D2:        if (chg) { okv := FALSE; return; };
        };
 D3:    di := di + 1;
     };
 D4: \* mark_as_verified
     memo[dq].ver := rev;
     vald := vald \cup {dq};
     bk[dq].lastVal := rev;
     okv := TRUE;
     return;
}

\* maybe_changed_after.rs: maybe_changed_after / _hot / _cold
procedure MaybeChanged(mq, mr) {
 M0: if (~memo[mq].has) { chg := TRUE; return; };
 M1: if (ShallowOk(memo[mq])) {
        if (memo[mq].ver # rev) { vald := vald \cup {mq}; bk[mq].lastVal := rev; };
        memo[mq].ver := rev;
        chg := memo[mq].ca > mr;
        return;
     };
 M2: call DeepVerify(mq);
 M3: if (okv) { chg := memo[mq].ca > mr; return; };
 M4: if (~memo[mq].valp) { chg := TRUE; return; };     \* evicted: changed, without executing
 M5: call Exec(mq);
 M6: chg := memo[mq].ca > mr;
     return;
}

\* execute.rs + active_query.rs + backdate.rs
procedure Exec(eq)
  variables en = 1;
{
 E0: \* WillExecute
     viol := viol \cup (IF ~ExecJustifiedG(eq) THEN {"C03"} ELSE {})
                  \cup (IF bk[eq].execRev = rev /\ ~bk[eq].evicted THEN {"C17"} ELSE {});
     execd := Append(execd, eq);
     bk[eq].execRev := rev || bk[eq].lastVal := rev;
     frames := Append(frames, Frame0(eq));
 E1: with (a = Adv(P.fns[eq], en, frames[Len(frames)])) {
        en := a.n;
        frames[Len(frames)] := a.fr;
     };
 E2: if (P.fns[eq].nodes[en].op = "call") {
        call Fetch(P.fns[eq].nodes[en].a);
 E3:    en := Kid(P.fns[eq].nodes[en], rv);
        goto E1;
     };
 E4: \* return: build the memo, backdate, discard edges of never-changing results
     with (fr = frames[Len(frames)],
           c = P.fns[eq].nodes[en].a,
           old = memo[eq],
           noeq = P.fns[eq].kind = "noeq",
           backd = old.has /\ old.valp /\ fr.dmin >= old.dur /\ ~noeq /\ old.val = c,
           ca2 = IF backd THEN old.ca ELSE fr.camax,
           b = bk[eq],
           semchanged = (~b.had) \/ b.evicted \/ b.val # c \/ noeq \/ fr.dmin < b.dur) {
        if (backd /\ old.ca > fr.camax) { viol := viol \cup {"BackdateAssertion"}; };
        memo[eq] := [has |-> TRUE, valp |-> TRUE, val |-> c, ver |-> rev, ca |-> ca2,
                     dur |-> fr.dmin,
                     deps |-> IF fr.dmin = 3 /\ ~fr.untr THEN <<>> ELSE fr.deps,
                     untr |-> fr.untr];
        bk[eq] := [had |-> TRUE, val |-> c, semCh |-> IF semchanged THEN rev ELSE b.semCh,
                   dur |-> fr.dmin, execRev |-> rev, evicted |-> FALSE, sdeps |-> fr.sdeps,
                   suntr |-> fr.untr, lastVal |-> rev];
        frames := SubSeq(frames, 1, Len(frames) - 1);
     };
     return;
}

{
 L0: while (nops < MaxOps) {
        with (o \in GetOps \cup (IF nwrites < MaxWrites THEN MutOps ELSE {}) \cup LruOps) {
            hist := Append(hist, o);
            execd := <<>>;
            vald := {};
            if (o.op = "get") {
                call Fetch(o.f);
            } else if (o.op = "lru") {
                \* set_lru_capacity: no new revision; capacity 0 clears the set
                cap := o.k;
                if (o.k = 0) { order := <<>>; };
                goto L2;
            } else if (o.op = "evict") {
                memo := AfterEvict(memo);
                bk := BkAfterEvict(bk);
                order := OrderAfterEvict;
                goto L2;
            } else {
                \* a write: the revision is bumped (and eviction runs) before the never-change assertion
                nwrites := nwrites + 1;
                rev := rev + 1;
                memo := AfterEvict(memo);
                bk := BkAfterEvict(bk);
                order := OrderAfterEvict;
                if (o.op = "set") {
                    with (old = inp[o.i][o.f]) {
                        if (old.d # 3) {
                            inp[o.i][o.f] := [v |-> o.v, ca |-> rev, d |-> IF o.d <= 3 THEN o.d ELSE old.d];
                            lc := [d \in 1..2 |-> IF old.d # 0 /\ d <= old.d THEN rev ELSE lc[d]];
                        };
                    };
                } else if (o.op = "synth") {
                    if (o.d # 3) { lc := [d \in 1..2 |-> IF d <= o.d THEN rev ELSE lc[d]]; };
                } else {
                    cell[o.k] := o.v;
                };
                goto L2;
            };
        };
 L1:    \* result of a fetch against the reference semantics (C01, C02, C04, C05)
        with (s = EvalFn(P, SNow, hist[Len(hist)].f)) {
            if (s.err = "" /\ s.v # rv) { viol := viol \cup {"C01"}; };
        };
        hist[Len(hist)] := [op |-> "get", i |-> 0, f |-> hist[Len(hist)].f, v |-> rv, d |-> 0, k |-> 0,
                            ex |-> execd, va |-> vald];
 L2:    nops := nops + 1;
     };
}
} *)
\* BEGIN TRANSLATION (chksum(pcal) = "eccef338" /\ chksum(tla) = "2fb10556")
CONSTANT defaultInitValue
VARIABLES pc, pi, P, NF, rev, lc, inp, cell, memo, order, cap, frames, rv, 
          okv, chg, nops, nwrites, bk, execd, vald, hist, viol, stack

(* define statement *)
LastChanged(d) == IF d = 0 THEN rev ELSE IF d = 3 THEN 1 ELSE lc[d]
ShallowOk(m) == m.ver = rev \/ LastChanged(m.dur) <= m.ver
SNow == [inp |-> [i \in 1..Len(inp) |-> [f \in 1..2 |-> inp[i][f].v]], cell |-> cell]
IsLru(j) == P.fns[j].kind = "lru"
Without(seq, k) == SelectSeq(seq, LAMBDA x : x # k)

AddRead(fr, dep, d, ca) ==
    [fr EXCEPT !.deps = IF d # 3 /\ ~InSeq(dep, fr.deps) THEN Append(fr.deps, dep) ELSE fr.deps,
               !.sdeps = Append(fr.sdeps, dep),
               !.dmin = Min2(fr.dmin, d), !.camax = Max2(fr.camax, ca)]

Frame0(q) == [q |-> q, deps |-> <<>>, sdeps |-> <<>>, dmin |-> 3, camax |-> 1, untr |-> FALSE]


RECURSIVE Adv(_, _, _)
Adv(def, n, fr) ==
    LET nd == def.nodes[n] IN
    CASE nd.op = "in" ->
            LET x == inp[nd.a][nd.b] IN
            Adv(def, Kid(nd, x.v), AddRead(fr, [t |-> "in", a |-> nd.a, b |-> nd.b], x.d, x.ca))
      [] nd.op = "cell" ->
            Adv(def, Kid(nd, cell[nd.a]), [fr EXCEPT !.untr = TRUE, !.dmin = 0, !.camax = rev])
      [] nd.op = "untr" ->
            Adv(def, Kid(nd, 0), [fr EXCEPT !.untr = TRUE, !.dmin = 0, !.camax = rev])
      [] OTHER -> [n |-> n, fr |-> fr]


Popped == IF cap > 0 /\ Len(order) > cap THEN SubSeq(order, 1, Len(order) - cap) ELSE <<>>
Evicts == {Popped[i] : i \in 1..Len(Popped)}
AfterEvict(mm) == [j \in 1..NF |->
    IF j \in Evicts /\ mm[j].has /\ ~mm[j].untr THEN [mm[j] EXCEPT !.valp = FALSE] ELSE mm[j]]
BkAfterEvict(b) == [j \in 1..NF |->
    IF j \in Evicts /\ memo[j].has /\ ~memo[j].untr THEN [b[j] EXCEPT !.evicted = TRUE] ELSE b[j]]
OrderAfterEvict == IF cap > 0 /\ Len(order) > cap
                   THEN SubSeq(order, Len(order) - cap + 1, Len(order)) ELSE order


DepChangedG(d, r) ==
    IF d.t = "in" THEN inp[d.a][d.b].ca > r
    ELSE (~bk[d.a].had) \/ bk[d.a].semCh > r
RECURSIVE StaleG(_, _)
StaleG(k, n) ==
    \/ ~bk[k].had
    \/ (bk[k].suntr /\ bk[k].execRev < rev)
    \/ \E i \in 1..Len(bk[k].sdeps) :
          LET d == bk[k].sdeps[i] IN
          \/ DepChangedG(d, bk[k].lastVal)
          \/ (n > 0 /\ d.t = "fn" /\ bk[d.a].evicted /\ bk[d.a].lastVal < rev /\ StaleG(d.a, n - 1))
ExecJustifiedG(k) == (~bk[k].had) \/ bk[k].evicted \/ StaleG(k, 6)


WriteOps == {[op |-> "set", i |-> i, f |-> f, v |-> v, d |-> d, k |-> 0] :
                i \in 1..Len(P.inputs), f \in 1..2, v \in 0..(P.nv - 1), d \in DurChoices}
SynthOps == {[op |-> "synth", i |-> 0, f |-> 0, v |-> 0, d |-> d, k |-> 0] : d \in SynthDurs}
CellOps == {[op |-> "cell", i |-> 0, f |-> 0, v |-> v, d |-> 0, k |-> k] :
                k \in 1..Len(P.cells), v \in 0..(P.nv - 1)}
LruOps == {[op |-> "lru", i |-> 0, f |-> 0, v |-> 0, d |-> 0, k |-> c] : c \in CapChoices}
            \cup (IF CapChoices = {} THEN {} ELSE {[op |-> "evict", i |-> 0, f |-> 0, v |-> 0, d |-> 0, k |-> 0]})
GetOps == {[op |-> "get", i |-> 0, f |-> j, v |-> 0, d |-> 0, k |-> 0] : j \in 1..NF}
MutOps == WriteOps \cup SynthOps \cup CellOps

VARIABLES fq, dq, di, mq, mr, eq, en

vars == << pc, pi, P, NF, rev, lc, inp, cell, memo, order, cap, frames, rv, 
           okv, chg, nops, nwrites, bk, execd, vald, hist, viol, stack, fq, 
           dq, di, mq, mr, eq, en >>

Init == (* Global variables *)
        /\ pi \in 1..Len(Progs)
        /\ P = Progs[pi]
        /\ NF = Len(P.fns)
        /\ rev = 1
        /\ lc = <<1, 1>>
        /\ inp = [i \in 1..Len(P.inputs) |->
                    [f \in 1..2 |-> [v |-> P.inputs[i][f][1], ca |-> 1, d |-> P.inputs[i][f][2]]]]
        /\ cell = P.cells
        /\ memo = [j \in 1..NF |-> MemoInit]
        /\ order = <<>>
        /\ cap = P.lru_cap
        /\ frames = <<>>
        /\ rv = -1
        /\ okv = FALSE
        /\ chg = FALSE
        /\ nops = 0
        /\ nwrites = 0
        /\ bk = [j \in 1..NF |-> BkInit]
        /\ execd = <<>>
        /\ vald = {}
        /\ hist = <<>>
        /\ viol = {}
        (* Procedure Fetch *)
        /\ fq = defaultInitValue
        (* Procedure DeepVerify *)
        /\ dq = defaultInitValue
        /\ di = 1
        (* Procedure MaybeChanged *)
        /\ mq = defaultInitValue
        /\ mr = defaultInitValue
        (* Procedure Exec *)
        /\ eq = defaultInitValue
        /\ en = 1
        /\ stack = << >>
        /\ pc = "L0"

F0 == /\ pc = "F0"
      /\ IF memo[fq].has /\ memo[fq].valp /\ ShallowOk(memo[fq])
            THEN /\ IF memo[fq].ver # rev
                       THEN /\ vald' = (vald \cup {fq})
                            /\ bk' = [bk EXCEPT ![fq].lastVal = rev]
                       ELSE /\ TRUE
                            /\ UNCHANGED << bk, vald >>
                 /\ memo' = [memo EXCEPT ![fq].ver = rev]
                 /\ pc' = "F3"
                 /\ UNCHANGED << stack, dq, di >>
            ELSE /\ IF memo[fq].has /\ memo[fq].valp
                       THEN /\ /\ dq' = fq
                               /\ stack' = << [ procedure |->  "DeepVerify",
                                                pc        |->  "F1",
                                                di        |->  di,
                                                dq        |->  dq ] >>
                                            \o stack
                            /\ di' = 1
                            /\ pc' = "D0"
                       ELSE /\ pc' = "F2"
                            /\ UNCHANGED << stack, dq, di >>
                 /\ UNCHANGED << memo, bk, vald >>
      /\ UNCHANGED << pi, P, NF, rev, lc, inp, cell, order, cap, frames, rv, 
                      okv, chg, nops, nwrites, execd, hist, viol, fq, mq, mr, 
                      eq, en >>

F1 == /\ pc = "F1"
      /\ IF okv
            THEN /\ pc' = "F3"
            ELSE /\ pc' = "F2"
      /\ UNCHANGED << pi, P, NF, rev, lc, inp, cell, memo, order, cap, frames, 
                      rv, okv, chg, nops, nwrites, bk, execd, vald, hist, viol, 
                      stack, fq, dq, di, mq, mr, eq, en >>

F2 == /\ pc = "F2"
      /\ /\ eq' = fq
         /\ stack' = << [ procedure |->  "Exec",
                          pc        |->  "F3",
                          en        |->  en,
                          eq        |->  eq ] >>
                      \o stack
      /\ en' = 1
      /\ pc' = "E0"
      /\ UNCHANGED << pi, P, NF, rev, lc, inp, cell, memo, order, cap, frames, 
                      rv, okv, chg, nops, nwrites, bk, execd, vald, hist, viol, 
                      fq, dq, di, mq, mr >>

F3 == /\ pc = "F3"
      /\ IF IsLru(fq) /\ cap > 0
            THEN /\ order' = Append(Without(order, fq), fq)
            ELSE /\ TRUE
                 /\ order' = order
      /\ IF frames # <<>>
            THEN /\ frames' = [frames EXCEPT ![Len(frames)] = AddRead(frames[Len(frames)], [t |-> "fn", a |-> fq, b |-> 0],
                                                                      memo[fq].dur, memo[fq].ca)]
            ELSE /\ TRUE
                 /\ UNCHANGED frames
      /\ rv' = memo[fq].val
      /\ IF bk[fq].suntr /\ bk[fq].execRev # rev
            THEN /\ viol' = (viol \cup {"C04"})
            ELSE /\ TRUE
                 /\ viol' = viol
      /\ pc' = Head(stack).pc
      /\ fq' = Head(stack).fq
      /\ stack' = Tail(stack)
      /\ UNCHANGED << pi, P, NF, rev, lc, inp, cell, memo, cap, okv, chg, nops, 
                      nwrites, bk, execd, vald, hist, dq, di, mq, mr, eq, en >>

Fetch == F0 \/ F1 \/ F2 \/ F3

D0 == /\ pc = "D0"
      /\ IF memo[dq].untr
            THEN /\ okv' = FALSE
                 /\ pc' = Head(stack).pc
                 /\ di' = Head(stack).di
                 /\ dq' = Head(stack).dq
                 /\ stack' = Tail(stack)
            ELSE /\ pc' = "D1"
                 /\ UNCHANGED << okv, stack, dq, di >>
      /\ UNCHANGED << pi, P, NF, rev, lc, inp, cell, memo, order, cap, frames, 
                      rv, chg, nops, nwrites, bk, execd, vald, hist, viol, fq, 
                      mq, mr, eq, en >>

D1 == /\ pc = "D1"
      /\ IF di <= Len(memo[dq].deps)
            THEN /\ IF memo[dq].deps[di].t = "in"
                       THEN /\ IF inp[memo[dq].deps[di].a][memo[dq].deps[di].b].ca > memo[dq].ver
                                  THEN /\ okv' = FALSE
                                       /\ pc' = Head(stack).pc
                                       /\ di' = Head(stack).di
                                       /\ dq' = Head(stack).dq
                                       /\ stack' = Tail(stack)
                                  ELSE /\ pc' = "D3"
                                       /\ UNCHANGED << okv, stack, dq, di >>
                            /\ UNCHANGED << mq, mr >>
                       ELSE /\ /\ mq' = memo[dq].deps[di].a
                               /\ mr' = memo[dq].ver
                               /\ stack' = << [ procedure |->  "MaybeChanged",
                                                pc        |->  "D2",
                                                mq        |->  mq,
                                                mr        |->  mr ] >>
                                            \o stack
                            /\ pc' = "M0"
                            /\ UNCHANGED << okv, dq, di >>
            ELSE /\ pc' = "D4"
                 /\ UNCHANGED << okv, stack, dq, di, mq, mr >>
      /\ UNCHANGED << pi, P, NF, rev, lc, inp, cell, memo, order, cap, frames, 
                      rv, chg, nops, nwrites, bk, execd, vald, hist, viol, fq, 
                      eq, en >>

D3 == /\ pc = "D3"
      /\ di' = di + 1
      /\ pc' = "D1"
      /\ UNCHANGED << pi, P, NF, rev, lc, inp, cell, memo, order, cap, frames, 
                      rv, okv, chg, nops, nwrites, bk, execd, vald, hist, viol, 
                      stack, fq, dq, mq, mr, eq, en >>

D2 == /\ pc = "D2"
      /\ IF chg
            THEN /\ okv' = FALSE
                 /\ pc' = Head(stack).pc
                 /\ di' = Head(stack).di
                 /\ dq' = Head(stack).dq
                 /\ stack' = Tail(stack)
            ELSE /\ pc' = "D3"
                 /\ UNCHANGED << okv, stack, dq, di >>
      /\ UNCHANGED << pi, P, NF, rev, lc, inp, cell, memo, order, cap, frames, 
                      rv, chg, nops, nwrites, bk, execd, vald, hist, viol, fq, 
                      mq, mr, eq, en >>

D4 == /\ pc = "D4"
      /\ memo' = [memo EXCEPT ![dq].ver = rev]
      /\ vald' = (vald \cup {dq})
      /\ bk' = [bk EXCEPT ![dq].lastVal = rev]
      /\ okv' = TRUE
      /\ pc' = Head(stack).pc
      /\ di' = Head(stack).di
      /\ dq' = Head(stack).dq
      /\ stack' = Tail(stack)
      /\ UNCHANGED << pi, P, NF, rev, lc, inp, cell, order, cap, frames, rv, 
                      chg, nops, nwrites, execd, hist, viol, fq, mq, mr, eq, 
                      en >>

DeepVerify == D0 \/ D1 \/ D3 \/ D2 \/ D4

M0 == /\ pc = "M0"
      /\ IF ~memo[mq].has
            THEN /\ chg' = TRUE
                 /\ pc' = Head(stack).pc
                 /\ mq' = Head(stack).mq
                 /\ mr' = Head(stack).mr
                 /\ stack' = Tail(stack)
            ELSE /\ pc' = "M1"
                 /\ UNCHANGED << chg, stack, mq, mr >>
      /\ UNCHANGED << pi, P, NF, rev, lc, inp, cell, memo, order, cap, frames, 
                      rv, okv, nops, nwrites, bk, execd, vald, hist, viol, fq, 
                      dq, di, eq, en >>

M1 == /\ pc = "M1"
      /\ IF ShallowOk(memo[mq])
            THEN /\ IF memo[mq].ver # rev
                       THEN /\ vald' = (vald \cup {mq})
                            /\ bk' = [bk EXCEPT ![mq].lastVal = rev]
                       ELSE /\ TRUE
                            /\ UNCHANGED << bk, vald >>
                 /\ memo' = [memo EXCEPT ![mq].ver = rev]
                 /\ chg' = (memo'[mq].ca > mr)
                 /\ pc' = Head(stack).pc
                 /\ mq' = Head(stack).mq
                 /\ mr' = Head(stack).mr
                 /\ stack' = Tail(stack)
            ELSE /\ pc' = "M2"
                 /\ UNCHANGED << memo, chg, bk, vald, stack, mq, mr >>
      /\ UNCHANGED << pi, P, NF, rev, lc, inp, cell, order, cap, frames, rv, 
                      okv, nops, nwrites, execd, hist, viol, fq, dq, di, eq, 
                      en >>

M2 == /\ pc = "M2"
      /\ /\ dq' = mq
         /\ stack' = << [ procedure |->  "DeepVerify",
                          pc        |->  "M3",
                          di        |->  di,
                          dq        |->  dq ] >>
                      \o stack
      /\ di' = 1
      /\ pc' = "D0"
      /\ UNCHANGED << pi, P, NF, rev, lc, inp, cell, memo, order, cap, frames, 
                      rv, okv, chg, nops, nwrites, bk, execd, vald, hist, viol, 
                      fq, mq, mr, eq, en >>

M3 == /\ pc = "M3"
      /\ IF okv
            THEN /\ chg' = (memo[mq].ca > mr)
                 /\ pc' = Head(stack).pc
                 /\ mq' = Head(stack).mq
                 /\ mr' = Head(stack).mr
                 /\ stack' = Tail(stack)
            ELSE /\ pc' = "M4"
                 /\ UNCHANGED << chg, stack, mq, mr >>
      /\ UNCHANGED << pi, P, NF, rev, lc, inp, cell, memo, order, cap, frames, 
                      rv, okv, nops, nwrites, bk, execd, vald, hist, viol, fq, 
                      dq, di, eq, en >>

M4 == /\ pc = "M4"
      /\ IF ~memo[mq].valp
            THEN /\ chg' = TRUE
                 /\ pc' = Head(stack).pc
                 /\ mq' = Head(stack).mq
                 /\ mr' = Head(stack).mr
                 /\ stack' = Tail(stack)
            ELSE /\ pc' = "M5"
                 /\ UNCHANGED << chg, stack, mq, mr >>
      /\ UNCHANGED << pi, P, NF, rev, lc, inp, cell, memo, order, cap, frames, 
                      rv, okv, nops, nwrites, bk, execd, vald, hist, viol, fq, 
                      dq, di, eq, en >>

M5 == /\ pc = "M5"
      /\ /\ eq' = mq
         /\ stack' = << [ procedure |->  "Exec",
                          pc        |->  "M6",
                          en        |->  en,
                          eq        |->  eq ] >>
                      \o stack
      /\ en' = 1
      /\ pc' = "E0"
      /\ UNCHANGED << pi, P, NF, rev, lc, inp, cell, memo, order, cap, frames, 
                      rv, okv, chg, nops, nwrites, bk, execd, vald, hist, viol, 
                      fq, dq, di, mq, mr >>

M6 == /\ pc = "M6"
      /\ chg' = (memo[mq].ca > mr)
      /\ pc' = Head(stack).pc
      /\ mq' = Head(stack).mq
      /\ mr' = Head(stack).mr
      /\ stack' = Tail(stack)
      /\ UNCHANGED << pi, P, NF, rev, lc, inp, cell, memo, order, cap, frames, 
                      rv, okv, nops, nwrites, bk, execd, vald, hist, viol, fq, 
                      dq, di, eq, en >>

MaybeChanged == M0 \/ M1 \/ M2 \/ M3 \/ M4 \/ M5 \/ M6

E0 == /\ pc = "E0"
      /\ viol' = (viol \cup (IF ~ExecJustifiedG(eq) THEN {"C03"} ELSE {})
                       \cup (IF bk[eq].execRev = rev /\ ~bk[eq].evicted THEN {"C17"} ELSE {}))
      /\ execd' = Append(execd, eq)
      /\ bk' = [bk EXCEPT ![eq].execRev = rev,
                          ![eq].lastVal = rev]
      /\ frames' = Append(frames, Frame0(eq))
      /\ pc' = "E1"
      /\ UNCHANGED << pi, P, NF, rev, lc, inp, cell, memo, order, cap, rv, okv, 
                      chg, nops, nwrites, vald, hist, stack, fq, dq, di, mq, 
                      mr, eq, en >>

E1 == /\ pc = "E1"
      /\ LET a == Adv(P.fns[eq], en, frames[Len(frames)]) IN
           /\ en' = a.n
           /\ frames' = [frames EXCEPT ![Len(frames)] = a.fr]
      /\ pc' = "E2"
      /\ UNCHANGED << pi, P, NF, rev, lc, inp, cell, memo, order, cap, rv, okv, 
                      chg, nops, nwrites, bk, execd, vald, hist, viol, stack, 
                      fq, dq, di, mq, mr, eq >>

E2 == /\ pc = "E2"
      /\ IF P.fns[eq].nodes[en].op = "call"
            THEN /\ /\ fq' = P.fns[eq].nodes[en].a
                    /\ stack' = << [ procedure |->  "Fetch",
                                     pc        |->  "E3",
                                     fq        |->  fq ] >>
                                 \o stack
                 /\ pc' = "F0"
            ELSE /\ pc' = "E4"
                 /\ UNCHANGED << stack, fq >>
      /\ UNCHANGED << pi, P, NF, rev, lc, inp, cell, memo, order, cap, frames, 
                      rv, okv, chg, nops, nwrites, bk, execd, vald, hist, viol, 
                      dq, di, mq, mr, eq, en >>

E3 == /\ pc = "E3"
      /\ en' = Kid(P.fns[eq].nodes[en], rv)
      /\ pc' = "E1"
      /\ UNCHANGED << pi, P, NF, rev, lc, inp, cell, memo, order, cap, frames, 
                      rv, okv, chg, nops, nwrites, bk, execd, vald, hist, viol, 
                      stack, fq, dq, di, mq, mr, eq >>

E4 == /\ pc = "E4"
      /\ LET fr == frames[Len(frames)] IN
           LET c == P.fns[eq].nodes[en].a IN
             LET old == memo[eq] IN
               LET noeq == P.fns[eq].kind = "noeq" IN
                 LET backd == old.has /\ old.valp /\ fr.dmin >= old.dur /\ ~noeq /\ old.val = c IN
                   LET ca2 == IF backd THEN old.ca ELSE fr.camax IN
                     LET b == bk[eq] IN
                       LET semchanged == (~b.had) \/ b.evicted \/ b.val # c \/ noeq \/ fr.dmin < b.dur IN
                         /\ IF backd /\ old.ca > fr.camax
                               THEN /\ viol' = (viol \cup {"BackdateAssertion"})
                               ELSE /\ TRUE
                                    /\ viol' = viol
                         /\ memo' = [memo EXCEPT ![eq] = [has |-> TRUE, valp |-> TRUE, val |-> c, ver |-> rev, ca |-> ca2,
                                                          dur |-> fr.dmin,
                                                          deps |-> IF fr.dmin = 3 /\ ~fr.untr THEN <<>> ELSE fr.deps,
                                                          untr |-> fr.untr]]
                         /\ bk' = [bk EXCEPT ![eq] = [had |-> TRUE, val |-> c, semCh |-> IF semchanged THEN rev ELSE b.semCh,
                                                      dur |-> fr.dmin, execRev |-> rev, evicted |-> FALSE, sdeps |-> fr.sdeps,
                                                      suntr |-> fr.untr, lastVal |-> rev]]
                         /\ frames' = SubSeq(frames, 1, Len(frames) - 1)
      /\ pc' = Head(stack).pc
      /\ en' = Head(stack).en
      /\ eq' = Head(stack).eq
      /\ stack' = Tail(stack)
      /\ UNCHANGED << pi, P, NF, rev, lc, inp, cell, order, cap, rv, okv, chg, 
                      nops, nwrites, execd, vald, hist, fq, dq, di, mq, mr >>

Exec == E0 \/ E1 \/ E2 \/ E3 \/ E4

L0 == /\ pc = "L0"
      /\ IF nops < MaxOps
            THEN /\ \E o \in GetOps \cup (IF nwrites < MaxWrites THEN MutOps ELSE {}) \cup LruOps:
                      /\ hist' = Append(hist, o)
                      /\ execd' = <<>>
                      /\ vald' = {}
                      /\ IF o.op = "get"
                            THEN /\ /\ fq' = o.f
                                    /\ stack' = << [ procedure |->  "Fetch",
                                                     pc        |->  "L1",
                                                     fq        |->  fq ] >>
                                                 \o stack
                                 /\ pc' = "F0"
                                 /\ UNCHANGED << rev, lc, inp, cell, memo, 
                                                 order, cap, nwrites, bk >>
                            ELSE /\ IF o.op = "lru"
                                       THEN /\ cap' = o.k
                                            /\ IF o.k = 0
                                                  THEN /\ order' = <<>>
                                                  ELSE /\ TRUE
                                                       /\ order' = order
                                            /\ pc' = "L2"
                                            /\ UNCHANGED << rev, lc, inp, cell, 
                                                            memo, nwrites, bk >>
                                       ELSE /\ IF o.op = "evict"
                                                  THEN /\ memo' = AfterEvict(memo)
                                                       /\ bk' = BkAfterEvict(bk)
                                                       /\ order' = OrderAfterEvict
                                                       /\ pc' = "L2"
                                                       /\ UNCHANGED << rev, lc, 
                                                                       inp, 
                                                                       cell, 
                                                                       nwrites >>
                                                  ELSE /\ nwrites' = nwrites + 1
                                                       /\ rev' = rev + 1
                                                       /\ memo' = AfterEvict(memo)
                                                       /\ bk' = BkAfterEvict(bk)
                                                       /\ order' = OrderAfterEvict
                                                       /\ IF o.op = "set"
                                                             THEN /\ LET old == inp[o.i][o.f] IN
                                                                       IF old.d # 3
                                                                          THEN /\ inp' = [inp EXCEPT ![o.i][o.f] = [v |-> o.v, ca |-> rev', d |-> IF o.d <= 3 THEN o.d ELSE old.d]]
                                                                               /\ lc' = [d \in 1..2 |-> IF old.d # 0 /\ d <= old.d THEN rev' ELSE lc[d]]
                                                                          ELSE /\ TRUE
                                                                               /\ UNCHANGED << lc, 
                                                                                               inp >>
                                                                  /\ cell' = cell
                                                             ELSE /\ IF o.op = "synth"
                                                                        THEN /\ IF o.d # 3
                                                                                   THEN /\ lc' = [d \in 1..2 |-> IF d <= o.d THEN rev' ELSE lc[d]]
                                                                                   ELSE /\ TRUE
                                                                                        /\ lc' = lc
                                                                             /\ cell' = cell
                                                                        ELSE /\ cell' = [cell EXCEPT ![o.k] = o.v]
                                                                             /\ lc' = lc
                                                                  /\ inp' = inp
                                                       /\ pc' = "L2"
                                            /\ cap' = cap
                                 /\ UNCHANGED << stack, fq >>
            ELSE /\ pc' = "Done"
                 /\ UNCHANGED << rev, lc, inp, cell, memo, order, cap, nwrites, 
                                 bk, execd, vald, hist, stack, fq >>
      /\ UNCHANGED << pi, P, NF, frames, rv, okv, chg, nops, viol, dq, di, mq, 
                      mr, eq, en >>

L1 == /\ pc = "L1"
      /\ LET s == EvalFn(P, SNow, hist[Len(hist)].f) IN
           IF s.err = "" /\ s.v # rv
              THEN /\ viol' = (viol \cup {"C01"})
              ELSE /\ TRUE
                   /\ viol' = viol
      /\ hist' = [hist EXCEPT ![Len(hist)] = [op |-> "get", i |-> 0, f |-> hist[Len(hist)].f, v |-> rv, d |-> 0, k |-> 0,
                                              ex |-> execd, va |-> vald]]
      /\ pc' = "L2"
      /\ UNCHANGED << pi, P, NF, rev, lc, inp, cell, memo, order, cap, frames, 
                      rv, okv, chg, nops, nwrites, bk, execd, vald, stack, fq, 
                      dq, di, mq, mr, eq, en >>

L2 == /\ pc = "L2"
      /\ nops' = nops + 1
      /\ pc' = "L0"
      /\ UNCHANGED << pi, P, NF, rev, lc, inp, cell, memo, order, cap, frames, 
                      rv, okv, chg, nwrites, bk, execd, vald, hist, viol, 
                      stack, fq, dq, di, mq, mr, eq, en >>

(* Allow infinite stuttering to prevent deadlock on termination. *)
Terminating == pc = "Done" /\ UNCHANGED vars

Next == Fetch \/ DeepVerify \/ MaybeChanged \/ Exec \/ L0 \/ L1 \/ L2
           \/ Terminating

Spec == Init /\ [][Next]_vars

Termination == <>(pc = "Done")

\* END TRANSLATION 
=============================================================================
