------------------------------- MODULE ParTrace -------------------------------
(***************************************************************************)
(* Monitor for traces of the parallel driver (several handles / threads):  *)
(* results against the reference semantics (C16, C18, C14, C08, C24),      *)
(* at-most-once execution (C17), writer exclusion and PendingWrite         *)
(* cancellation (C20), local cancellation (C21), panics with waiters (C22).*)
(* The protocol events of the same traces are judged by SyncTrace.tla.     *)
(*                                                                         *)
(* Ordering arguments (DESIGN 5.4): events are totally ordered by the log  *)
(* mutex; an event logged after a store / before a load inherits the       *)
(* happens-before edge of that mutex.                                      *)
(***************************************************************************)
EXTENDS Sem, Json, IOUtils, SequencesExt

Rec == ndJsonDeserialize(IOEnv.TRACE)
N == Len(Rec)

VARIABLES l, P, st
vars == <<l, P, st>>

Viol(id, detail) == PrintT("VIOL|" \o id \o "|" \o ToString(l) \o "|" \o ToString(detail))
Check(id, ok, detail) == IF ok THEN TRUE ELSE Viol(id, detail)
CheckAll(ids, ok, detail) == IF ok THEN TRUE ELSE \A id \in ids : Viol(id, detail)

HasFix(p) == \E j \in 1..Len(p.fns) : p.fns[j].kind \in {"fix", "fixjoin"}
HasFb(p) == \E j \in 1..Len(p.fns) : p.fns[j].kind = "fb"
SemOf(p, s) == IF HasFix(p) THEN SemTableFix(p, s) ELSE IF HasFb(p) THEN SemTableFb(p, s) ELSE SemTable(p, s)
SVals(inp, cell) == [inp |-> [i \in 1..Len(inp) |-> [f \in 1..2 |-> inp[i][f].v]], cell |-> cell]

ModeProps(m) ==
    CASE m \in {"pardag", "parlru"} -> {"C16"}
      [] m = "parmemo" -> {"C17"}
      [] m \in {"parfix", "parfb", "parnest3"} -> {"C18"}
      [] m = "parpcycle" -> {"C14"}
      [] m = "parintern" -> {"C08"}
      [] m \in {"parstruct", "paralloc"} -> {"C24"}
      [] m \in {"parwrite", "parwritefix", "parwritenest"} -> {"C20"}
      [] m \in {"parcancel", "parcancelfix", "parcancelnest", "parcancelacc"} -> {"C21"}
      [] m \in {"parpanic", "parpaniccancel"} -> {"C22"}
      [] OTHER -> {"C16"}

Put(f, k, v) == [x \in (DOMAIN f) \cup {k} |-> IF x = k THEN v ELSE f[x]]
Get(f, k, d) == IF k \in DOMAIN f THEN f[k] ELSE d

Fresh(p, mode, inject) ==
    LET inp == [i \in 1..Len(p.inputs) |->
                  [f \in 1..2 |-> [v |-> p.inputs[i][f][1], d |-> p.inputs[i][f][2]]]]
    IN [rev |-> 1, inp |-> inp, cell |-> p.cells, sem |-> SemOf(p, SVals(inp, p.cells)), mode |-> mode,
        cur |-> <<>>, execd |-> {}, live |-> {}, dropb |-> {}, pend |-> [op |-> "none"], flag |-> FALSE,
        mustpw |-> {}, stack |-> <<>>, creq |-> <<>>, cused |-> <<>>, armed |-> {}, mustloc |-> {},
        inject |-> inject, injected |-> FALSE, panicked |-> FALSE, canon |-> <<>>, ids |-> <<>>,
        unwinding |-> {}, cbeg |-> {}, cbin |-> {},
        pslot |-> <<>>, pown |-> <<>>, allocs |-> 0]

ev == Rec[l]
T == ev.t

IsMutOp(o) == o \in {"set", "synth", "cell", "lru", "evict"}

ApplyWrite(s, o) ==
    IF o.op = "set" THEN
        LET old == s.inp[o.i][o.f]
            frozen == old.d = 3
            inp2 == IF frozen THEN s.inp
                    ELSE [s.inp EXCEPT ![o.i][o.f] = [v |-> o.v, d |-> IF o.d >= 0 THEN o.d ELSE old.d]]
        IN [s EXCEPT !.rev = s.rev + 1, !.inp = inp2, !.execd = {}, !.canon = <<>>,
                     !.sem = IF frozen THEN s.sem ELSE SemOf(P, SVals(inp2, s.cell))]
    ELSE IF o.op \in {"synth", "cell"} THEN [s EXCEPT !.rev = s.rev + 1, !.execd = {}, !.canon = <<>>]
    ELSE s

OnOp ==
    IF T = 0 THEN
        IF IsMutOp(ev.op)
        THEN st' = [st EXCEPT !.pend = ev]      \* a write takes effect when the writer proceeds (hook H4)
        ELSE st' = [st EXCEPT !.cur = Put(st.cur, 0, ev)]
    ELSE st' = [st EXCEPT !.cur = Put(st.cur, T, ev), !.cbin = st.cbin \ {T}]

CycFix(kj) == kj > 0 /\ kj <= Len(P.fns) /\ P.fns[kj].kind \in {"fix", "fixjoin", "fb"}
FixDepth(t) == Len(SelectSeq(Get(st.stack, t, <<>>), LAMBDA kj : CycFix(kj)))

OnRet ==
    LET c == Get(st.cur, T, [op |-> "none"])
        props == ModeProps(st.mode)
        anyInj == st.inject > 0 \/ st.injected
        s1 == [st EXCEPT !.cur = Put(st.cur, T, [op |-> "none"]), !.stack = Put(st.stack, T, <<>>),
                         !.mustpw = st.mustpw \ {T}, !.mustloc = st.mustloc \ {T}, !.armed = st.armed \ {T},
                         !.unwinding = st.unwinding \ {T}, !.cbin = st.cbin \ {T},
                         \* (a propagated panic is a consequence, not a panic of its own: it must not excuse later ones)
                         !.panicked = st.panicked \/ (ev.ok = 0 /\ ev.kind \notin {"cancel_pw", "cancel_local", "cancel_pp"})]
    IN
    IF c.op = "get" THEN
        LET semr == st.sem[c.f] IN
        /\ (T \in st.mustpw) =>
              Check("C20", ev.ok = 0 /\ ev.kind \in {"cancel_pw", "cancel_local"},
                    <<"reader checked for cancellation after the flag was set but did not unwind", T, ev.ok, ev.kind>>)
        /\ (T \in st.mustloc) =>
              Check("C21", ev.ok = 0 /\ ev.kind = "cancel_local",
                    <<"locally cancelled handle checked for cancellation but did not unwind with Cancelled::Local", T, ev.ok, ev.kind>>)
        /\ (ev.ok = 0 /\ ev.kind = "cancel_pw") =>
              Check("C20", st.pend.op # "none", <<"PendingWrite cancellation without a pending write", T>>)
        /\ (ev.ok = 0 /\ ev.kind = "cancel_local") =>
              Check("C21", Get(st.creq, T, 0) > Get(st.cused, T, 0),
                    <<"handle unwound with Cancelled::Local without having been cancelled", T>>)
        /\ (ev.ok = 1) =>
              /\ CheckAll(props, semr.err = "" /\ ev.v = semr.v,
                          <<"result differs from single-threaded from-scratch evaluation", T, c.f, ev.v, semr>>)
        /\ (ev.ok = 0 /\ ev.kind \notin {"cancel_pw", "cancel_local", "inject"}) =>
              IF semr.err = "cycle" THEN Check("C14", ev.kind \in {"cycle", "cancel_pp"}, <<"wrong outcome for an unrecoverable cycle", T, ev.kind, ev.msg>>)
              ELSE IF semr.err = "diverge" THEN Check("C15", ev.kind \in {"iterlimit", "cancel_pp"}, <<"wrong outcome for divergence", ev.kind>>)
              ELSE IF ev.kind = "cancel_pp" /\ (anyInj \/ st.panicked \/ st.pend.op # "none") THEN TRUE
              ELSE CheckAll(IF anyInj THEN {"C22"} ELSE props, FALSE, <<"unexpected panic", T, ev.kind, ev.msg>>)
        /\ st' = [s1 EXCEPT !.cused = IF ev.ok = 0 /\ ev.kind = "cancel_local" THEN Put(st.cused, T, Get(st.cused, T, 0) + 1) ELSE st.cused]
    ELSE IF IsMutOp(c.op) \/ (T = 0 /\ st.pend.op # "none") THEN
        \* end of a write on the main handle
        /\ Check("C20", ev.ok = 1 \/ ev.kind \in {"never", "inject"}, <<"write failed", ev.kind, ev.msg>>)
        /\ st' = [s1 EXCEPT !.pend = [op |-> "none"], !.flag = FALSE]
    ELSE st' = s1

\* the writer proceeds: every other handle must have been dropped (drop_begin logged before)
OnWproc ==
    /\ Check("C20", ev.clones = 1, <<"writer proceeded while other handles are alive", ev.clones>>)
    /\ Check("C20", st.live \subseteq st.dropb, <<"writer proceeded before every clone was dropped", st.live \ st.dropb>>)
    /\ st' = IF st.pend.op # "none" THEN [ApplyWrite(st, st.pend) EXCEPT !.flag = FALSE, !.mustpw = {}]
             ELSE [st EXCEPT !.flag = FALSE]

OnWcc ==
    \* WillCheckCancellation of a reader: logged, then the local token and the flag are loaded
    LET pw == T # 0 /\ st.flag /\ st.pend.op # "none"
        loc == T \in st.armed /\ FixDepth(T) = 0
    IN st' = [st EXCEPT !.mustpw = IF pw /\ ~loc THEN st.mustpw \cup {T} ELSE st.mustpw,
                        !.mustloc = IF loc THEN st.mustloc \cup {T} ELSE st.mustloc]

OnWe ==
    /\ (st.mode \in {"pardag", "parmemo"} /\ st.inject = 0) =>
          Check("C17", ev.k \notin st.execd, <<"function executed twice for one key in one revision", ev.k, st.rev, T>>)
    /\ st' = [st EXCEPT !.execd = st.execd \cup {ev.k}]

OnInt ==
    \* interning is canonical within a revision across threads (C08)
    LET key == <<ev.kind, ev.v>> IN
    /\ (key \in DOMAIN st.canon) =>
          Check("C08", st.canon[key] = ev.id, <<"equal values interned to different handles in one revision", key, st.canon[key], ev.id, T>>)
    /\ Check("C08", \A k2 \in DOMAIN st.canon : k2 # key => st.canon[k2] # ev.id \/ k2[1] # ev.kind,
             <<"unequal values interned to the same handle in one revision", key, ev.id>>)
    /\ st' = [st EXCEPT !.canon = Put(st.canon, key, ev.id),
                        !.ids = Put(st.ids, "I" \o ToString(ev.kind) \o "@" \o ev.id, ev.v)]

OnRd ==
    IF ev.st = "int" /\ ev.sk \in DOMAIN st.ids
    THEN /\ Check("C08", st.ids[ev.sk] = ev.v, <<"interned field read differs from the interned value", ev.sk, ev.v>>)
         /\ st' = st
    ELSE st' = st

\* ---- C24: identities handed out by the page allocator (page = index \div 128, slot = index % 128) ----
PageOf(ix) == ix \div 128
SlotOf(ix) == ix % 128
\* a fresh slot (generation 0) is allocated: slots of a page are handed out in increasing order, and a page
\* is filled by one live handle at a time
AllocChecks(ix, gn) ==
    LET p == PageOf(ix) s == SlotOf(ix)
        last == Get(st.pslot, p, -1)
        writers == Get(st.pown, p, {})
    IN (gn = 0) =>
        /\ Check("C24", s > last, <<"slot of a page handed out twice / out of order", ix, p, s, last>>)
        /\ Check("C24", \A w \in writers : w = T \/ w \in st.dropb \/ w \notin st.live, <<"page used by two live handles", p, writers, T>>)
AllocUpd(s0, ix, gn) ==
    IF gn = 0 THEN [s0 EXCEPT !.pslot = Put(s0.pslot, PageOf(ix), SlotOf(ix)),
                              !.pown = Put(s0.pown, PageOf(ix), {w \in Get(s0.pown, PageOf(ix), {}) : w \in s0.live /\ w \notin s0.dropb} \cup {T}),
                              !.allocs = s0.allocs + 1]
    ELSE s0

OnNew ==
    \* identities of structs created concurrently are pairwise distinct (C24)
    LET nk == "T@" \o ev.id IN
    /\ Check("C24", (nk \notin DOMAIN st.ids) \/ st.ids[nk] = <<ev.k, ev.ident>>,
             <<"identity handed out twice", ev.id, ev.k, T>>)
    /\ ((nk \notin DOMAIN st.ids) => AllocChecks(ev.ix, ev.gn))
    /\ st' = IF nk \in DOMAIN st.ids THEN st ELSE AllocUpd([st EXCEPT !.ids = Put(st.ids, nk, <<ev.k, ev.ident>>)], ev.ix, ev.gn)

OnNewIn ==
    LET nk == "In@" \o ev.id IN
    /\ Check("C24", nk \notin DOMAIN st.ids, <<"input identity handed out twice", ev.id, T>>)
    /\ AllocChecks(ev.ix, ev.gn)
    /\ st' = AllocUpd([st EXCEPT !.ids = Put(st.ids, nk, <<ev.a, ev.b>>)], ev.ix, ev.gn)

OnRdIn ==
    LET nk == "In@" \o ev.id IN
    /\ Check("C24", nk \in DOMAIN st.ids /\ st.ids[nk] = <<ev.a, ev.b>>, <<"input does not read back the fields it was created with", ev.id, ev.a, ev.b>>)
    /\ st' = st

OnTIntern ==
    LET key == <<ev.kind, ev.v>> nk == "I" \o ToString(ev.kind) \o "@" \o ev.id IN
    /\ (key \in DOMAIN st.canon) =>
          CheckAll({"C24", "C08"}, st.canon[key] = ev.id, <<"equal values interned to different handles", key, st.canon[key], ev.id, T>>)
    /\ CheckAll({"C24", "C08"}, \A k2 \in DOMAIN st.canon : k2 # key => st.canon[k2] # ev.id \/ k2[1] # ev.kind,
                <<"unequal values interned to the same handle", key, ev.id>>)
    /\ st' = IF key \in DOMAIN st.canon THEN st
             ELSE [st EXCEPT !.canon = Put(st.canon, key, ev.id), !.ids = Put(st.ids, nk, ev.v)]

\* DidInternValue: a fresh slot was allocated by this thread (emitted inside intern_id, under the shard lock)
OnDiv ==
    /\ AllocChecks(ev.ix, ev.gn)
    /\ st' = AllocUpd(st, ev.ix, ev.gn)

OnTRdInt ==
    LET nk == "I" \o ToString(ev.kind) \o "@" \o ev.id IN
    /\ CheckAll({"C24", "C08"}, nk \in DOMAIN st.ids /\ st.ids[nk] = ev.v, <<"interned value does not read back", ev.id, ev.v>>)
    /\ st' = st

\* ClaimGuard::release_panicking: the outcome handed to the waiters of a claim released during unwinding.
\* A thread that unwinds from a panic (injected here) hands out Panicked unless its own local cancellation
\* is what fires: requested for this handle (cancel_begin logged in this round) and not deferred by an
\* enclosing fixpoint frame.  Cancelled instead makes the waiters silently retry a computation that panicked.
OnHk ==
    LET s == Get(st.stack, T, <<>>)
        pos == {i \in 1..Len(s) : s[i] = ev.kj}
        enclosed == \E i \in pos : \E o \in 1..(i - 1) : CycFix(s[o])
    IN
    /\ (ev.name = "sync_release" /\ ev.text \in {"Panicked", "Cancelled"} /\ T \in st.unwinding /\ ev.kj > 0 /\ pos # {}
         /\ (T \notin st.cbeg \/ enclosed)) =>
          Check("C19", ev.text = "Panicked",
                <<"claim of a panicking computation released with outcome Cancelled (its waiters retry instead of seeing the panic)", T, ev.k, ev.kj, enclosed>>)
    /\ st' = st

TraceInit ==
    /\ l = 1
    /\ P = Rec[1].prog
    /\ st = Fresh(Rec[1].prog, Rec[1].mode, Rec[1].inject)

TraceNext ==
    /\ l <= N
    /\ l' = l + 1
    /\ P' = IF ev.e = "reset" THEN ev.prog ELSE P
    /\ CASE ev.e = "reset" -> st' = Fresh(ev.prog, ev.mode, ev.inject)
         [] ev.e = "op" -> OnOp
         [] ev.e = "ret" -> OnRet
         [] ev.e = "we" -> OnWe
         [] ev.e = "bs" -> st' = [st EXCEPT !.stack = Put(st.stack, T, Append(Get(st.stack, T, <<>>), ev.kj))]
         [] ev.e = "be" -> st' = [st EXCEPT !.stack = Put(st.stack, T,
                                    LET s == Get(st.stack, T, <<>>) IN IF s = <<>> THEN s ELSE SubSeq(s, 1, Len(s) - 1))]
         [] ev.e = "int" -> OnInt /\ TRUE
         [] ev.e = "new" -> OnNew
         [] ev.e = "newin" -> OnNewIn
         [] ev.e = "rdin" -> OnRdIn
         [] ev.e = "tintern" -> OnTIntern
         [] ev.e = "div" -> OnDiv
         [] ev.e = "trdint" -> OnTRdInt
         [] ev.e = "round" -> st' = [st EXCEPT !.live = {}, !.dropb = {}, !.cur = <<>>, !.stack = <<>>, !.mustpw = {}, !.pown = <<>>,
                                              !.mustloc = {}, !.armed = {}, !.flag = FALSE, !.unwinding = {}, !.cbeg = {}, !.cbin = {}]
         [] ev.e = "clone" -> st' = [st EXCEPT !.live = st.live \cup {ev.h}]
         [] ev.e = "drop_begin" -> st' = [st EXCEPT !.dropb = st.dropb \cup {ev.h}]
         [] ev.e = "drop_end" -> st' = [st EXCEPT !.live = st.live \ {ev.h}, !.dropb = st.dropb \ {ev.h}]
         [] ev.e = "dscf" -> st' = [st EXCEPT !.flag = TRUE]
         [] ev.e = "wproc" -> OnWproc
         [] ev.e = "wcc" -> OnWcc
         [] ev.e = "cancel_begin" ->
               st' = [st EXCEPT !.creq = Put(st.creq, ev.h, Get(st.creq, ev.h, 0) + 1), !.cbeg = st.cbeg \cup {ev.h},
                                !.cbin = IF Get(st.cur, ev.h, [op |-> "none"]).op # "none" THEN st.cbin \cup {ev.h} ELSE st.cbin]
         [] ev.e = "cancel_end" ->
               \* the handle must unwind only if the whole cancel() call fell inside its current computation: a call that
               \* began during the previous one may have set the token before that computation's end reset it
               st' = [st EXCEPT !.armed = IF Get(st.cur, ev.h, [op |-> "none"]).op # "none" /\ ev.h \in st.cbin
                                          THEN st.armed \cup {ev.h} ELSE st.armed]
         [] ev.e = "inject" -> st' = [st EXCEPT !.injected = TRUE, !.unwinding = st.unwinding \cup {T}]
         [] ev.e = "hk" -> OnHk
         [] ev.e = "hang" ->
               /\ CheckAll(ModeProps(st.mode) \cup {"C16"}, FALSE, <<"threads did not terminate (hang)", ev.finished, ev.threads>>)
               /\ st' = st
         [] OTHER -> st' = st

TraceSpec == TraceInit /\ [][TraceNext]_vars

TraceAccepted ==
    LET d == TLCGet("stats").diameter IN
    IF d - 1 = N THEN TRUE ELSE Print(<<"STUCK", d, IF d <= N THEN Rec[d] ELSE "eof">>, FALSE)
=============================================================================
