#!/bin/bash
# usage: stress.sh <first-seed> <last-seed> <check ids...>
# Runs the quick tier of the given checks with many seeds (for `vp run --with-repo`: builds against the
# snapshot of /repo in $VP_RUN_REPO so that edits to /repo do not disturb it). Failing replays are kept in keep/.
cd "$(dirname "$0")"
if [ -n "$VP_RUN_REPO" ]; then sed -i "s#path = \"/repo\"#path = \"$VP_RUN_REPO\"#" harness/Cargo.toml; fi
A=$1; B=$2; shift 2
mkdir -p keep
for s in $(seq $A $B); do
  for c in "$@"; do
    out=$(./check $c --tier quick --seed $s 2>&1); rc=$?
    echo "seed=$s $c rc=$rc $(echo "$out" | grep -m1 'detail:\|TOOL-ERROR\|error' | cut -c1-260)"
    if [ $rc -ne 0 ]; then
      mkdir -p keep/$c-$s; cp work/replay/$c-* keep/$c-$s/ 2>/dev/null; echo "$out" | tail -30 > keep/$c-$s/out.txt
    fi
  done
done
